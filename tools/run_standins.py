"""dev tool: run bounded stand-ins in-process.  .venv/bin/python tools/run_standins.py [name-substring] [quick|thorough]"""
import sys, os
sys.path.insert(0, os.path.dirname(os.path.dirname(os.path.abspath(__file__)))); sys.path.insert(0, os.environ.get('REPO', '/repo'))
import warnings; warnings.simplefilter('ignore')
from pyvc import run, api, cli
run.setup_paths(); run.load_contract_modules()
only = sys.argv[1] if len(sys.argv) > 1 else ''
tier = sys.argv[2] if len(sys.argv) > 2 else 'quick'
for n, p, f in api.STANDINS:
    if only not in n:
        continue
    r = cli.run_standin_task((n, tier, 0))
    if r.get('crash'):
        print(n, 'CRASH', r['crash'][-1500:]); continue
    print(n, p, 'cases', r['cases'], 'failures', r['failures_n'], '%.1fs' % r['wall_s'], r.get('note', ''), flush=True)
    for fl in r['failures'][:8]:
        print('    FAIL', str(fl)[:300], flush=True)
