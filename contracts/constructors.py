"""Contracts for the constructors of closures, potentials and omega models, and small accessors.

The calculate() contracts obtain their pre-states by running these constructors, so their *effect* is already part of
every proof; the contracts here pin what the constructors themselves promise: which attributes exist afterwards, that
arguments are stored as given, and the documented DEFAULTS (the cases call with and without the optional arguments --
a changed default of apply_hard_core, high_value, shift, sigma or rcut fails here).  The evaluation lambda `funk` is not
compared as an object (its behaviour is the calculate() contract): field `funk` is ignored.
"""
from pyvc.api import *

CL = 'pyPRISM/closure/'
PO = 'pyPRISM/potential/'
OM = 'pyPRISM/omega/'


def _closure_init(self, apply_hard_core=False):
    self.potential = None
    self.value = None
    self.sigma = None
    self.apply_hard_core = apply_hard_core


def _mk_closure_contract(fname, cls):
    @contract(CL + '%s.py::%s.__init__' % (fname, cls), props=['C09', 'C03'])
    def spec(self, apply_hard_core=False):
        self.potential = None
        self.value = None
        self.sigma = None
        self.apply_hard_core = apply_hard_core
    spec.__name__ = cls + '_init'
    return spec


@contract(CL + 'PercusYevick.py::PercusYevick.__init__', props=['C09', 'C03'])
def PercusYevick_init(self, apply_hard_core=False):
    self.potential = None
    self.value = None
    self.sigma = None
    self.apply_hard_core = apply_hard_core


@contract(CL + 'HyperNettedChain.py::HyperNettedChain.__init__', props=['C09', 'C03'])
def HyperNettedChain_init(self, apply_hard_core=False):
    self.potential = None
    self.value = None
    self.sigma = None
    self.apply_hard_core = apply_hard_core


@contract(CL + 'MeanSphericalApproximation.py::MeanSphericalApproximation.__init__', props=['C09', 'C03'])
def MeanSphericalApproximation_init(self, apply_hard_core=False):
    self.potential = None
    self.value = None
    self.sigma = None
    self.apply_hard_core = apply_hard_core


@contract(CL + 'MartynovSarkisov.py::MartynovSarkisov.__init__', props=['C09', 'C03'])
def MartynovSarkisov_init(self, apply_hard_core=False):
    self.potential = None
    self.value = None
    self.apply_hard_core = apply_hard_core


def _closure_cases(ref):
    def gen():
        yield 'default flag', (lambda f: dict(self=f.obj(ref)))
        for hc in (False, True):
            yield 'apply_hard_core=%s' % hc, (lambda f, hc=hc: dict(self=f.obj(ref), apply_hard_core=hc))
    return gen


cases(PercusYevick_init)(_closure_cases('pyPRISM.closure.PercusYevick:PercusYevick'))
cases(HyperNettedChain_init)(_closure_cases('pyPRISM.closure.HyperNettedChain:HyperNettedChain'))
cases(MeanSphericalApproximation_init)(_closure_cases('pyPRISM.closure.MeanSphericalApproximation:MeanSphericalApproximation'))
cases(MartynovSarkisov_init)(_closure_cases('pyPRISM.closure.MartynovSarkisov:MartynovSarkisov'))


# --------------------------------------------------------------------------- potentials

@contract(PO + 'HardSphere.py::HardSphere.__init__', props=['C10', 'C03'])
def HardSphere_init(self, sigma=None, high_value=1e6):
    self.sigma = sigma
    self.high_value = high_value


@contract(PO + 'Exponential.py::Exponential.__init__', props=['C10', 'C03'])
def Exponential_init(self, epsilon, alpha, sigma=None, high_value=1e6):
    self.epsilon = epsilon
    self.alpha = alpha
    self.sigma = sigma
    self.high_value = high_value


@contract(PO + 'HardCoreLennardJones.py::HardCoreLennardJones.__init__', props=['C10', 'C03'])
def HardCoreLennardJones_init(self, epsilon, sigma=None, high_value=1e6):
    self.epsilon = epsilon
    self.sigma = sigma
    self.high_value = high_value


@contract(PO + 'LennardJones.py::LennardJones.__init__', props=['C10'])
def LennardJones_init(self, epsilon, sigma=None, rcut=None, shift=False):
    self.epsilon = epsilon
    self.sigma = sigma
    self.rcut = rcut
    self.shift = shift


@contract(PO + 'WeeksChandlerAndersen.py::WeeksChandlerAndersen.__init__', props=['C10'])
def WeeksChandlerAndersen_init(self, epsilon, sigma=None):
    self.epsilon = epsilon
    self.sigma = sigma
    self.rcut = True            # a placeholder: calculate() recomputes rcut = 2^(1/6) sigma on every call
    self.shift = True


IGN = {'ignore': ('self.funk', 'funk')}


@cases(HardSphere_init)
def _hs_init_cases():
    yield 'all defaults', (lambda f: dict(self=f.obj('pyPRISM.potential.HardSphere:HardSphere'))), IGN
    yield 'sigma and high_value given', (lambda f: dict(self=f.obj('pyPRISM.potential.HardSphere:HardSphere'), sigma=f.real('sigma'), high_value=f.real('high'))), IGN


@cases(Exponential_init)
def _exp_init_cases():
    R = 'pyPRISM.potential.Exponential:Exponential'
    yield 'defaults for sigma, high_value', (lambda f: dict(self=f.obj(R), epsilon=f.real('eps'), alpha=f.real('alpha'))), IGN
    yield 'everything given', (lambda f: dict(self=f.obj(R), epsilon=f.real('eps'), alpha=f.real('alpha'), sigma=f.real('sigma'), high_value=f.real('high'))), IGN


@cases(HardCoreLennardJones_init)
def _hclj_init_cases():
    R = 'pyPRISM.potential.HardCoreLennardJones:HardCoreLennardJones'
    yield 'defaults for sigma, high_value', (lambda f: dict(self=f.obj(R), epsilon=f.real('eps'))), IGN
    yield 'everything given', (lambda f: dict(self=f.obj(R), epsilon=f.real('eps'), sigma=f.real('sigma'), high_value=f.real('high'))), IGN


@cases(LennardJones_init)
def _lj_init_cases():
    R = 'pyPRISM.potential.LennardJones:LennardJones'
    yield 'defaults for sigma, rcut, shift', (lambda f: dict(self=f.obj(R), epsilon=f.real('eps'))), IGN
    yield 'everything given', (lambda f: dict(self=f.obj(R), epsilon=f.real('eps'), sigma=f.real('sigma'), rcut=f.real('rcut'), shift=f.bool('shift'))), IGN


@cases(WeeksChandlerAndersen_init)
def _wca_init_cases():
    R = 'pyPRISM.potential.WeeksChandlerAndersen:WeeksChandlerAndersen'
    yield 'default sigma', (lambda f: dict(self=f.obj(R), epsilon=f.real('eps'))), IGN
    yield 'sigma given', (lambda f: dict(self=f.obj(R), epsilon=f.real('eps'), sigma=f.real('sigma'))), IGN


# --------------------------------------------------------------------------- omega models

@contract(OM + 'Gaussian.py::Gaussian.__init__', props=['C11'])
def Gaussian_init(self, sigma, length):
    self.sigma = sigma
    self.length = length
    self.value = None


@contract(OM + 'GaussianRing.py::GaussianRing.__init__', props=['C11'])
def GaussianRing_init(self, sigma, length):
    self.sigma = sigma
    self.length = length
    self.value = None


@contract(OM + 'FreelyJointedChain.py::FreelyJointedChain.__init__', props=['C11'])
def FreelyJointedChain_init(self, length, l):
    self.length = length
    self.N = length
    self.l = l
    self.value = None


def _two_arg_cases(ref, names):
    def gen():
        def build(f):
            d = dict(self=f.obj(ref))
            for n in names:
                d[n] = f.int(n, lo=1) if n == 'length' else f.real(n, pos=True)
            return d
        yield 'any parameters', build
    return gen


cases(Gaussian_init)(_two_arg_cases('pyPRISM.omega.Gaussian:Gaussian', ['sigma', 'length']))
cases(GaussianRing_init)(_two_arg_cases('pyPRISM.omega.GaussianRing:GaussianRing', ['sigma', 'length']))
cases(FreelyJointedChain_init)(_two_arg_cases('pyPRISM.omega.FreelyJointedChain:FreelyJointedChain', ['length', 'l']))


# --------------------------------------------------------------------------- MatrixArray accessors

@contract('pyPRISM/core/MatrixArray.py::MatrixArray.getMatrix', props=['C13'])
def MatrixArray_getMatrix(self, matrix_index):
    return self.data[matrix_index, :, :]          # a view of one wavenumber's matrix


@contract('pyPRISM/core/MatrixArray.py::MatrixArray.setMatrix', props=['C13'])
def MatrixArray_setMatrix(self, matrix_index, value):
    old = fresh_copy(self.data)
    n = self.rank
    update(self.data, lambda l, a, b: value[a, b] if l == matrix_index else old[l, a, b])


def _mat_cases(with_value):
    def gen():
        from contracts.core_matrixarray import mk_MA
        for n in (1, 2, 3):
            def build(f, n=n):
                L = f.int('L', lo=1)
                i = f.int('i', lo=0)
                f.assume(i < L)
                d = dict(self=mk_MA(f, 'M', L, n), matrix_index=i)
                if with_value:
                    d['value'] = f.array('V', (n, n))
                return d
            yield 'rank=%d, any index in range' % n, build
    return gen


cases(MatrixArray_getMatrix)(_mat_cases(False))
cases(MatrixArray_setMatrix)(_mat_cases(True))
