"""Computer-algebra back end (sympy) for rational-function identities that z3/cvc5 leave `unknown`.

An obligation  assumptions ==> G  is handed over when G has the shape
    [guards ==>]  lhs == rhs      or      [guards ==>]  Or(eq_1, ..., eq_k)
Equalities `x == t` between a symbol and a term found in the guards are used as rewrite rules
(that is how `d_A == d_B ==> ...` is decided).  The identity is accepted when
`cancel(lhs - rhs)` is the zero rational function.  Soundness conditions, each discharged by z3
under the obligation's own assumptions (otherwise the answer is `unknown`):
  * every denominator that occurs in lhs/rhs is non-zero;
  * every argument of a sqrt is >= 0 (then sqrt(x)**2 = x, sqrt(x) >= 0 is what sympy uses),
    and symbols are declared positive to sympy only when z3 proves them > 0.
Uninterpreted applications (array reads, exp, log, dst results, ...) are opaque symbols, keyed by
their z3 term, so equal terms are the same symbol (congruence only up to syntactic identity).
"""
import time
import z3

try:
    import sympy
except ImportError:      # pragma: no cover
    sympy = None


class _Giveup(Exception):
    pass


class _Conv(object):
    def __init__(self, assumptions, timeout_ms=3000):
        self.assumptions = list(assumptions)
        self.syms = {}        # z3 term id -> sympy symbol
        self.terms = {}       # sympy symbol -> z3 term
        self.denoms = []      # z3 terms that must be non-zero
        self.radicands = []   # z3 terms that must be >= 0
        self.timeout_ms = timeout_ms
        self.cache = {}
        self.hcache = {}
        self.keep = []
        self.pos_atoms = None

    def _collect_pos(self):
        """Atoms stated positive by the assumptions themselves (x > 0, x >= c with c > 0, ...)."""
        pos = set()
        for a in self.assumptions:
            todo = [a]
            while todo:
                x = todo.pop()
                if z3.is_and(x):
                    todo.extend(x.children())
                    continue
                if not z3.is_app(x) or x.num_args() != 2:
                    continue
                k = x.decl().kind()
                l, r = x.arg(0), x.arg(1)
                if k in (z3.Z3_OP_GT, z3.Z3_OP_GE) and (z3.is_rational_value(r) or z3.is_int_value(r)):
                    v = r.as_fraction() if z3.is_rational_value(r) else r.as_long()
                    if v > 0 or (v == 0 and k == z3.Z3_OP_GT):
                        pos.add(l.get_id())
                if k in (z3.Z3_OP_LT, z3.Z3_OP_LE) and (z3.is_rational_value(l) or z3.is_int_value(l)):
                    v = l.as_fraction() if z3.is_rational_value(l) else l.as_long()
                    if v > 0 or (v == 0 and k == z3.Z3_OP_LT):
                        pos.add(r.get_id())
        return pos

    def positive(self, t, depth=0):
        """Cheap structural proof of t > 0 (no solver): sums / products / quotients / integer powers / sqrt of positives."""
        if self.pos_atoms is None:
            self.pos_atoms = self._collect_pos()
        if t.get_id() in self.pos_atoms:
            return True
        if depth > 40:
            return False
        if z3.is_rational_value(t) or z3.is_int_value(t):
            return (t.as_fraction() if z3.is_rational_value(t) else t.as_long()) > 0
        if not z3.is_app(t):
            return False
        k = t.decl().kind()
        ch = t.children()
        if k in (z3.Z3_OP_ADD, z3.Z3_OP_MUL, z3.Z3_OP_DIV):
            return all(self.positive(c, depth + 1) for c in ch)
        if k == z3.Z3_OP_TO_REAL:
            return self.positive(ch[0], depth + 1)
        if k == z3.Z3_OP_POWER:
            return self.positive(ch[0], depth + 1)
        if k == z3.Z3_OP_UNINTERPRETED and t.decl().name() in ('sqrt', 'exp') and len(ch) == 1:
            return t.decl().name() == 'exp' or self.positive(ch[0], depth + 1)
        if k == z3.Z3_OP_UNINTERPRETED and t.decl().name() == 'pi':
            return True
        return False

    def holds(self, cond):
        k = cond.get_id()
        if k in self.hcache:
            return self.hcache[k]
        # structural shortcut for  t != 0  /  t >= 0  /  t > 0
        if z3.is_app(cond):
            kk = cond.decl().kind()
            if kk == z3.Z3_OP_DISTINCT and cond.num_args() == 2 and (z3.is_rational_value(cond.arg(1)) or z3.is_int_value(cond.arg(1))) \
                    and cond.arg(1).as_fraction() == 0 if z3.is_rational_value(cond.arg(1)) else False:
                if self.positive(cond.arg(0)):
                    self.hcache[k] = True
                    self.keep.append(cond)
                    return True
            if kk in (z3.Z3_OP_GE, z3.Z3_OP_GT) and cond.num_args() == 2 and z3.is_rational_value(cond.arg(1)) and cond.arg(1).as_fraction() == 0:
                if self.positive(cond.arg(0)):
                    self.hcache[k] = True
                    self.keep.append(cond)
                    return True
        from .state import cone_of_influence
        s = z3.Solver()
        s.set('timeout', self.timeout_ms)
        for a in cone_of_influence(self.assumptions, cond):
            s.add(a)
        s.add(z3.Not(cond))
        from .sym import check_deadline
        r = check_deadline(s, self.timeout_ms / 1000.0 + 2.0) == z3.unsat
        self.hcache[k] = r
        self.keep.append(cond)
        return r

    def opaque(self, t):
        k = t.get_id()
        if k not in self.syms:
            pos = False
            try:
                pos = z3.is_arith(t) and self.positive(t)      # structural only: array reads etc. have no sign
            except z3.Z3Exception:
                pos = False
            name = 's%d' % len(self.syms)
            sy = sympy.Symbol(name, positive=True) if pos else sympy.Symbol(name, real=True)
            self.syms[k] = sy
            self.terms[sy] = t
        return self.syms[k]

    def conv(self, t):
        k = t.get_id()
        if k in self.cache:
            return self.cache[k]
        r = self._conv(t)
        self.cache[k] = r
        return r

    def _conv(self, t):
        if z3.is_int_value(t):
            return sympy.Integer(t.as_long())
        if z3.is_rational_value(t):
            return sympy.Rational(t.numerator_as_long(), t.denominator_as_long())
        if z3.is_algebraic_value(t):
            raise _Giveup('algebraic numeral')
        if not z3.is_app(t):
            raise _Giveup('non-application')
        k = t.decl().kind()
        ch = t.children()
        if k == z3.Z3_OP_ADD:
            return sympy.Add(*[self.conv(c) for c in ch])
        if k == z3.Z3_OP_MUL:
            return sympy.Mul(*[self.conv(c) for c in ch])
        if k == z3.Z3_OP_SUB:
            r = self.conv(ch[0])
            for c in ch[1:]:
                r = r - self.conv(c)
            return r
        if k == z3.Z3_OP_UMINUS:
            return -self.conv(ch[0])
        if k == z3.Z3_OP_DIV:
            self.denoms.append(ch[1])
            return self.conv(ch[0]) / self.conv(ch[1])
        if k == z3.Z3_OP_TO_REAL:
            return self.conv(ch[0])
        if k == z3.Z3_OP_POWER:
            if z3.is_int_value(ch[1]) or (z3.is_rational_value(ch[1]) and ch[1].denominator_as_long() == 1):
                n = ch[1].as_long() if z3.is_int_value(ch[1]) else ch[1].numerator_as_long()
                if n < 0:
                    self.denoms.append(ch[0])
                return self.conv(ch[0]) ** n
            raise _Giveup('power')
        if k == z3.Z3_OP_UNINTERPRETED and t.decl().name() == 'sqrt' and len(ch) == 1:
            self.radicands.append(ch[0])
            return sympy.sqrt(self.conv(ch[0]))
        if k == z3.Z3_OP_ITE:
            raise _Giveup('ite')
        if z3.is_arith(t):
            return self.opaque(t)
        raise _Giveup('sort')


def _split(goal):
    """goal -> (guards, [equalities]) or None."""
    guards = []
    g = goal
    while z3.is_implies(g):
        guards.append(g.arg(0))
        g = g.arg(1)
    if z3.is_eq(g) and z3.is_arith(g.arg(0)):
        return guards, [g]
    if z3.is_or(g) and all(z3.is_eq(c) and z3.is_arith(c.arg(0)) for c in g.children()):
        return guards, list(g.children())
    if z3.is_and(g):
        return None
    return None


def _flatten_and(t, out):
    if z3.is_and(t):
        for c in t.children():
            _flatten_and(c, out)
    else:
        out.append(t)


def algebra_check(assumptions, goal, timeout_s=20.0):
    """-> 'proved' | 'unknown'"""
    if sympy is None or not z3.is_expr(goal):
        return 'unknown'
    sp = _split(goal)
    if sp is None:
        return 'unknown'
    guards, eqs = sp
    flat = []
    for g in guards:
        _flatten_and(g, flat)
    # rewrite rules  const == term  from the guards
    subst = []
    for g in flat:
        if z3.is_eq(g):
            a, b = g.arg(0), g.arg(1)
            if z3.is_const(b) and b.decl().kind() == z3.Z3_OP_UNINTERPRETED:
                subst.append((b, a))
            elif z3.is_const(a) and a.decl().kind() == z3.Z3_OP_UNINTERPRETED:
                subst.append((a, b))
    asm = list(assumptions) + flat
    t0 = time.time()
    for e in eqs:
        if time.time() - t0 > timeout_s:
            return 'unknown'
        lhs, rhs = e.arg(0), e.arg(1)
        if subst:
            lhs = z3.substitute(lhs, *subst)
            rhs = z3.substitute(rhs, *subst)
        cv = _Conv([z3.substitute(a, *subst) for a in asm] if subst else asm)
        try:
            d = cv.conv(lhs) - cv.conv(rhs)
            num, den = sympy.fraction(sympy.together(d))
            z = sympy.expand(num)
            if z != 0:
                continue
        except _Giveup:
            continue
        except Exception:
            continue
        # side conditions
        ok = True
        seen = set()
        for dn in cv.denoms:
            if dn.get_id() in seen:
                continue
            seen.add(dn.get_id())
            if not cv.holds(dn != 0):
                ok = False
                break
        if ok:
            for rd in cv.radicands:
                if not cv.holds(rd >= 0):
                    ok = False
                    break
        if ok:
            return 'proved'
    return 'unknown'
