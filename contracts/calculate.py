"""Contracts for pyPRISM/calculate/*.py  (properties C05, C06).

Pre-state: a hand-populated PRISM object P (the three correlation arrays symbolic and symmetric in the two type
labels, each stored in Real or Fourier space -- the flags are symbolic, so every space combination is a path),
attached to a fully specified system (well-formed Domain, Density and Diameter invariants of C07/C15).

Spec functions are written from the definitions in the property statement.  Each transforms a stored array only
through Domain.MatrixArray_to_*, i.e. flips its representation and never its content (C06's abstract-state
invariant; content preservation is the round-trip lemma of C07).  The refinement check compares, besides the
returned value, every pre-existing object and array (frame): a calculate function that rescales a stored array
in place, or leaves one in a different state than the definition requires, fails here.
"""
from pyvc.api import *
from pyPRISM.core.Space import Space
from pyPRISM.core.MatrixArray import MatrixArray
from pyPRISM.core.PairTable import PairTable
from contracts.core_matrixarray import mk_MA, LABELS
from contracts.core_domain import mk_Domain
from contracts.core_density import mk_Density, mk_Diameter
from contracts.core_tables import mk_PT

SP = 'pyPRISM.core.Space:Space'
PR = 'pyPRISM.core.PRISM:PRISM'
SY = 'pyPRISM.core.System:System'
CALC = 'pyPRISM/calculate/'


def sym_MA(f, name, N, n, space, types):
    """A MatrixArray whose data is symmetric in the two type indices (what __setitem__ maintains)."""
    M = mk_MA(f, name, N, n, space=space, types=types)
    raw = f.getattr(M, 'data')
    f.setattr(M, 'data', f.array_of((N, n, n), lambda l, a, b: f.elem(raw, (l, f.min(a, b), f.max(a, b)))))
    return M


def mk_PRISM(f, n, spaces=None, minN=3):
    """A real PRISM object (built by PRISM.__init__ from a fully specified n-component System with real closure,
    potential and omega objects), then populated by hand: the three correlation arrays are arbitrary symmetric
    arrays, each stored in Real or Fourier space."""
    from contracts.core_system import mk_System, MIXES
    S = mk_System(f, n, mix=MIXES[n][0])
    N0 = f.getattr(f.getattr(S, 'domain'), '_length')
    f.assume(N0 >= minN)          # the k->0 extrapolations use the three lowest-k points
    P = f.construct(PR, S)
    sysm = f.getattr(P, 'sys')
    types = f.getattr(sysm, 'types')
    N = f.getattr(f.getattr(sysm, 'domain'), '_length')
    sp = {}
    for nm in ('totalCorr', 'directCorr', 'omega'):
        sp[nm] = (spaces or {}).get(nm) or f.enum_sym(nm + '_space', SP, members=('Real', 'Fourier'))
    f.setattr(P, 'totalCorr', sym_MA(f, 'H', N, n, sp['totalCorr'], types))
    f.setattr(P, 'directCorr', sym_MA(f, 'C', N, n, sp['directCorr'], types))
    f.setattr(P, 'omega', sym_MA(f, 'W', N, n, sp['omega'], types))
    return P


# --------------------------------------------------------------------------- g = h + 1

@contract(CALC + 'pair_correlation.py::pair_correlation', props=['C05', 'C06', 'C02'])
def pair_correlation(PRISM):
    if PRISM.totalCorr.space == Space.Fourier:
        PRISM.sys.domain.MatrixArray_to_real(PRISM.totalCorr)       # representation flip only
    h = PRISM.totalCorr
    PRISM.pairCorr = MatrixArray(length=h.length, rank=h.rank, space=h.space, types=h.types,
                                 data=pointwise((h.length, h.rank, h.rank), lambda l, a, b: h.data[l, a, b] + 1.0))
    return PRISM.pairCorr


# --------------------------------------------------------------------------- w = -kT ln g

@contract(CALC + 'pmf.py::pmf', props=['C05', 'C06', 'C04'])
def pmf(PRISM):
    if PRISM.totalCorr.space == Space.Fourier:
        PRISM.sys.domain.MatrixArray_to_real(PRISM.totalCorr)
    h = PRISM.totalCorr
    kT = PRISM.sys.kT
    PRISM.pairCorr = MatrixArray(length=h.length, rank=h.rank, space=h.space, types=h.types,
                                 data=pointwise((h.length, h.rank, h.rank), lambda l, a, b: h.data[l, a, b] + 1.0))
    return MatrixArray(length=None, rank=None, space=Space.Real, types=PRISM.sys.types,
                       data=pointwise((h.length, h.rank, h.rank), lambda l, a, b: -(kT * log(h.data[l, a, b] + 1.0))))


# --------------------------------------------------------------------------- S = rho_pair h + Omega  [/ rho_site]

@contract(CALC + 'structure_factor.py::structure_factor', props=['C05', 'C06', 'C02'])
def structure_factor(PRISM, normalize=True):
    if PRISM.totalCorr.space == Space.Real:
        PRISM.sys.domain.MatrixArray_to_fourier(PRISM.totalCorr)
    if PRISM.omega.space == Space.Real:
        PRISM.sys.domain.MatrixArray_to_fourier(PRISM.omega)
    H = PRISM.totalCorr
    W = PRISM.omega
    pair = PRISM.sys.density.pair.data
    site = PRISM.sys.density.site.data
    if normalize:
        data = pointwise((H.length, H.rank, H.rank), lambda l, a, b: (pair[0, a, b] * H.data[l, a, b] + W.data[l, a, b]) / site[0, a, b])
    else:
        data = pointwise((H.length, H.rank, H.rank), lambda l, a, b: pair[0, a, b] * H.data[l, a, b] + W.data[l, a, b])
    return MatrixArray(length=H.length, rank=H.rank, space=H.space, types=H.types, data=data)


# --------------------------------------------------------------------------- B2 = -h(k->0)/2

@contract(CALC + 'second_virial.py::second_virial', props=['C05', 'C06', 'C02'])
def second_virial(PRISM, extrapolate=True):
    if PRISM.totalCorr.space == Space.Real:
        PRISM.sys.domain.MatrixArray_to_fourier(PRISM.totalCorr)
    H = PRISM.totalCorr.data
    k = PRISM.sys.domain.k
    types = PRISM.sys.types
    B2 = PairTable(name='B2', types=types)
    for i, a in enumerate(types):
        for j, b in enumerate(types):
            if i <= j:                           # one value per unordered pair, the same from (a,b) and (b,a)
                if extrapolate:
                    B2[a, b] = quad_at_zero(k, pointwise(3, lambda m: -0.5 * H[m, i, j]))
                else:
                    B2[a, b] = -0.5 * H[0, i, j]
    return B2


import os as _os
_R4 = (4,) if _os.environ.get('PYVC_TIER') == 'thorough' else ()      # the thorough tier adds rank 4


def _symmetric_result(f, args, res):
    """C05: every returned pair function is symmetric in the two type labels (on the contract's post-state)."""
    data = f.getattr(res, 'data')
    n = data.shape[1]
    out = []
    for a in range(n):
        for b in range(a + 1, n):
            out.append(('result[%d,%d] == result[%d,%d] at every grid point' % (a, b, b, a),
                        f.forall(data.shape[0], lambda l, a=a, b=b: f.eq(f.elem(data, (l, a, b)), f.elem(data, (l, b, a))))))
    return out


def _cases(ranks, flags, post=None):
    ranks = tuple(ranks) + _R4

    def gen():
        for n in ranks:
            for fl in flags:
                def build(f, n=n, fl=fl):
                    d = dict(PRISM=mk_PRISM(f, n))
                    d.update(fl)
                    return d
                yield 'rank=%d%s' % (n, ''.join(',%s=%s' % kv for kv in sorted(fl.items()))), build, ({'post': post} if post else {})
    return gen


cases(pair_correlation)(_cases((1, 2, 3), [{}], post=_symmetric_result))
cases(pmf)(_cases((1, 2, 3), [{}], post=_symmetric_result))
cases(structure_factor)(_cases((1, 2, 3), [{'normalize': True}, {'normalize': False}], post=_symmetric_result))
cases(second_virial)(_cases((1, 2, 3), [{'extrapolate': True}, {'extrapolate': False}]))


# --------------------------------------------------------------------------- spinodal condition: det(I - Omega C), k -> 0

def det2(w11, w12, w22, c11, c12, c22):
    """det(I - Omega C) for the symmetric 2x2 blocks Omega = [[w11,w12],[w12,w22]], C = [[c11,c12],[c12,c22]]."""
    m11 = w11 * c11 + w12 * c12
    m12 = w11 * c12 + w12 * c22
    m21 = w12 * c11 + w22 * c12
    m22 = w12 * c12 + w22 * c22
    return (1 - m11) * (1 - m22) - m12 * m21


@contract(CALC + 'spinodal_condition.py::spinodal_condition', props=['C05', 'C06'])
def spinodal_condition(PRISM, extrapolate=True):
    if PRISM.sys.rank <= 1:
        raise AssertionError
    if PRISM.directCorr.space == Space.Real:
        PRISM.sys.domain.MatrixArray_to_fourier(PRISM.directCorr)
    if PRISM.omega.space == Space.Real:
        PRISM.sys.domain.MatrixArray_to_fourier(PRISM.omega)
    W = PRISM.omega.data                 # the object's own (site-density scaled) omega; never modified
    C = PRISM.directCorr.data
    k = PRISM.sys.domain.k
    types = PRISM.sys.types
    lam = PairTable(name='spinodal_condition', types=types)
    for i, a in enumerate(types):
        for j, b in enumerate(types):
            if i < j:
                lam[a, b] = quad_at_zero(k, pointwise(3, lambda m: det2(W[m, i, i], W[m, i, j], W[m, j, j],
                                                                       C[m, i, i], C[m, i, j], C[m, j, j])))
    return lam


cases(spinodal_condition)(_cases((1, 2, 3), [{}]))


# --------------------------------------------------------------------------- solvation potential

@contract(CALC + 'solvation_potential.py::solvation_potential', props=['C05', 'C06'])
def solvation_potential(PRISM, closure='HNC'):
    if PRISM.sys.rank <= 1:
        raise AssertionError
    if PRISM.directCorr.space == Space.Real:
        PRISM.sys.domain.MatrixArray_to_fourier(PRISM.directCorr)
    if PRISM.totalCorr.space == Space.Real:
        PRISM.sys.domain.MatrixArray_to_fourier(PRISM.totalCorr)
    if PRISM.omega.space == Space.Real:
        PRISM.sys.domain.MatrixArray_to_fourier(PRISM.omega)
    S = structure_factor(PRISM).data         # "S as returned by structure_factor": the callee's contract
    C = PRISM.directCorr.data
    n = PRISM.sys.rank
    N = PRISM.directCorr.length
    kT = PRISM.sys.kT
    if closure == 'HNC':
        data = pointwise((N, n, n), lambda l, a, b: -(kT * sum([C[l, a, p] * S[l, p, q] * C[l, q, b] for p in range(n) for q in range(n)])))
    else:
        data = pointwise((N, n, n), lambda l, a, b: -(kT * log(1 + sum([C[l, a, p] * S[l, p, q] * C[l, q, b] for p in range(n) for q in range(n)]))))
    psi = MatrixArray(length=N, rank=n, data=data, space=PRISM.directCorr.space, types=PRISM.directCorr.types)
    PRISM.sys.domain.MatrixArray_to_real(psi)
    return psi


cases(solvation_potential)(_cases((1, 2, 3), [{'closure': 'HNC'}, {'closure': 'PY'}], post=_symmetric_result))


# --------------------------------------------------------------------------- chi

def q0(xs, ys):
    """Value at 0 of the quadratic through (xs[m], ys[m]), m = 0,1,2 (Lagrange form; scalars of either factory)."""
    x0, x1, x2 = xs
    y0, y1, y2 = ys
    return (y0 * (x1 * x2) / ((x0 - x1) * (x0 - x2)) + y1 * (x0 * x2) / ((x1 - x0) * (x1 - x2)) +
            y2 * (x0 * x1) / ((x2 - x0) * (x2 - x1)))


@contract(CALC + 'chi.py::chi', props=['C05', 'C06'])
def chi(PRISM, extrapolate=True):
    """Reference for the side effects (C06: only the representation of directCorr may change) and the table
    structure.  The returned values are *not* taken from here but from the property clauses in _chi_post: the
    statement pins the prefactor only for equal site volumes, and the weights 1/R : R : -2 in general."""
    if PRISM.sys.rank <= 1:
        raise AssertionError
    if PRISM.directCorr.space == Space.Real:
        PRISM.sys.domain.MatrixArray_to_fourier(PRISM.directCorr)
    C = PRISM.directCorr.data
    k = PRISM.sys.domain.k
    N = PRISM.directCorr.length
    types = PRISM.sys.types
    rho_total = PRISM.sys.density.total
    out = PairTable(name='chi', types=types)
    out0 = PairTable(name='chi0', types=types)
    for i, a in enumerate(types):
        for j, b in enumerate(types):
            if i < j:
                da = PRISM.sys.diameter.diameter.values[a]
                db = PRISM.sys.diameter.diameter.values[b]
                ra = PRISM.sys.density.density.values[a]
                rb = PRISM.sys.density.density.values[b]
                R = (da * da * da) / (db * db * db)
                s = 0.5 * rho_total / (ra / (ra + rb) / sqrt(R) + sqrt(R) * rb / (ra + rb))
                out[a, b] = pointwise(N, lambda l: s * (C[l, i, i] / R + R * C[l, j, j] - 2 * C[l, i, j]))
                out0[a, b] = quad_at_zero(k, pointwise(3, lambda m: s * (C[m, i, i] / R + R * C[m, j, j] - 2 * C[m, i, j])))
    if extrapolate:
        return out0
    return out


def _chi_post(f, args, res):
    P = args['PRISM']
    sysm = f.getattr(P, 'sys')
    types = f.getattr(sysm, 'types')
    if len(types) < 2:
        return []
    C = f.getattr(f.getattr(P, 'directCorr'), 'data')
    N = C.shape[0]
    k = f.getattr(f.getattr(sysm, 'domain'), 'k')
    ks = [f.elem(k, (m,)) for m in range(3)]
    dv = f.getattr(f.getattr(f.getattr(sysm, 'diameter'), 'diameter'), 'values')
    rv = f.getattr(f.getattr(f.getattr(sysm, 'density'), 'density'), 'values')
    rho_total = sum([f.val(rv[t]) for t in types])
    vals = f.getattr(res, 'values')
    extrapolate = args.get('extrapolate', True)
    out = []
    for i, a in enumerate(types):
        for j, b in enumerate(types):
            if not i < j:
                continue
            da, db = f.val(dv[a]), f.val(dv[b])
            ra, rb = f.val(rv[a]), f.val(rv[b])
            R = (da * da * da) / (db * db * db)            # site-volume ratio v_a / v_b
            v = f.val(vals[a][b])
            out.append(('chi[%s,%s] is chi[%s,%s]' % (a, b, b, a), f.val(vals[b][a]) is v))

            def W(l, R=R, i=i, j=j):
                return f.elem(C, (l, i, i)) / R + R * f.elem(C, (l, j, j)) - 2 * f.elem(C, (l, i, j))

            def W1(l, i=i, j=j):
                return f.elem(C, (l, i, i)) + f.elem(C, (l, j, j)) - 2 * f.elem(C, (l, i, j))
            if not extrapolate:
                out.append(('chi[%s,%s](k) == (rho/2)(C_aa + C_bb - 2 C_ab) for equal site volumes' % (a, b),
                            f.forall(N, lambda l: f.implies(f.eq(da, db), f.eq(f.elem(v, (l,)), 0.5 * rho_total * W1(l))))))
                out.append(('chi[%s,%s](k) is one k-independent factor times (C_aa/R + R C_bb - 2 C_ab)' % (a, b),
                            f.forall(N, lambda l: f.forall(N, lambda m: f.eq(f.elem(v, (l,)) * W(m), f.elem(v, (m,)) * W(l)), name='q2'))))
            else:
                out.append(('chi0[%s,%s] == quadratic through the 3 lowest-k points of (rho/2)(C_aa + C_bb - 2 C_ab) at k=0, equal site volumes' % (a, b),
                            f.implies(f.eq(da, db), f.eq(v, q0(ks, [0.5 * rho_total * W1(m) for m in range(3)])))))
                wq = q0(ks, [W(m) for m in range(3)])
                sq = f.sqrt(R)
                s_code = 0.5 * rho_total / (ra / (ra + rb) / sq + sq * rb / (ra + rb))
                s_doc = 0.5 * rho_total / (sq * ra / (ra + rb) + rb / (ra + rb) / sq)
                out.append(('chi0[%s,%s] == s * quadratic extrapolation of (C_aa/R + R C_bb - 2 C_ab), s the shipped or the documented normalisation' % (a, b),
                            f.Or(f.eq(v, s_code * wq), f.eq(v, s_doc * wq))))
    return out


@cases(chi)
def _chi_cases():
    for n in (1, 2, 3) + _R4:
        for ex in (True, False):
            def build(f, n=n, ex=ex):
                return dict(PRISM=mk_PRISM(f, n), extrapolate=ex)
            yield 'rank=%d,extrapolate=%s' % (n, ex), build, {'ignore': ('return',), 'post_body': _chi_post}
