#!/bin/sh
# Applies each behaviour-preserving refactoring under /verif/harmless/<id>/patch.diff to /repo, runs every claimed
# check, undoes it.  Expected: no VIOLATION line (exit 0; exit 2 = undecided is recorded as such).
export PYVC_EVIDENCE_DIR=${PYVC_EVIDENCE_DIR:-/tmp/pyvc_evidence_scratch}   # runs on modified trees never overwrite /verif/evidence
OUT=/verif/harmless/RESULTS.tsv; : > $OUT
[ -z "$(git -C /repo status --porcelain --untracked-files=no)" ] || { echo "/repo not clean"; exit 3; }
PROPS=${PROPS:-"C01 C02 C03 C04 C05 C06 C07 C08 C09 C10 C11 C12 C13 C14 C15 C16 C17"}
for D in /verif/harmless/*/; do
  ID=$(basename $D); [ -f $D/patch.diff ] || continue
  git -C /repo apply $D/patch.diff 2>/dev/null || { echo "$ID: patch failed"; continue; }
  for p in $PROPS; do
    /verif/check $p > /tmp/harm.log 2>&1; rc=$?
    printf "%s\t%s\t%s\t%s\t%s\n" $ID $p $rc "$(grep -c '^VIOLATION' /tmp/harm.log)" "$(grep -m1 'failing obligation\|UNDECIDED\|CHECKER' /tmp/harm.log | cut -c1-260)" >> $OUT
  done
  git -C /repo checkout -- .
done
awk -F'\t' '$3!=0' $OUT
echo "non-zero exits: $(awk -F'\t' '$3!=0' $OUT | wc -l) of $(wc -l < $OUT)"
