"""Per-property metadata used in evidence files and MANIFEST.json (level, technique, explanation, assumptions)."""

A_FP = 'A1: Python/numpy floats are treated as mathematical reals (rounding, overflow, nan invisible to the proofs)'
A_INT = 'A2: Python ints are mathematical integers (exact)'
A_ASSERT = 'A3: assert statements execute (interpreter not run with -O)'
A_NUMPY = 'A4: numpy axiomatisation of elementwise ops, broadcasting, views vs copies, masked stores, zeros/ones/copy/where/reshape (cross-checked by the concrete differential replay on the real numpy)'
A_TYPES = 'A7: type lists hold pairwise distinct hashable labels and are not mutated after a table is built'
A_RANK = 'ranks / type-list lengths are unrolled (1..4, matching the bound the property quotes); array lengths, grid sizes and all numeric values are symbolic and unbounded'
A_EXT = 'A5: assumed (unverified) contracts on external functions: %s'
A_TRANS = 'exp/log/sin/sqrt are uninterpreted functions with only: exp>0, sqrt(x)>=0 and sqrt(x)^2=x for x>=0; pi is a real constant with 3.14159<pi<3.1416'

TECH = 'contract refinement proof: symbolic execution of the real function bodies (ast -> z3) against sidecar spec functions and postconditions, SMT-discharged (z3, cvc5); counter-models replayed on the real code'

PROPS = {
    'C03': {
        'level': 'proof',
        'technique': TECH,
        'explanation': 'Closure bodies: on the code\'s own post-state, value[i]+gamma[i]==-1 wherever r[i]<=sigma for every flagged closure, every gamma/r/sigma/length (generic index). Hard-core potentials (HardSphere, HardCoreLennardJones, Exponential) are refined against specs with u[i]==high_value for r[i]<=sigma. PY/HNC without the flag: lemma over the C09 spec functions with the IEEE underflow instance exp(x)=0 for x<=-745.2. g = residual/r inside the core: lemma over the contract of PRISM.cost.',
        'assumptions': [A_FP, A_ASSERT, A_NUMPY, 'IEEE underflow fact used only in the no-flag lemma: x <= -745.2 => exp(x) == 0 (libm); in that lemma exp>0 is not assumed'],
    },
    'C07': {
        'level': 'proof',
        'technique': TECH + '; class invariant wf(Domain) established by the constructor and preserved by every setter (induction over setter histories)',
        'explanation': 'Domain.__init__/build_grid/dr,dk,length setters are refined against specs and shown to establish/preserve wf(D): len(r)=len(k)=length, r_i=(i+1)dr, k_j=(j+1)dk, dr*dk*length=pi, DST coefficient arrays, long_r; after every setter the domain equals Domain(length,dr) field by field. to_fourier/to_real are refined against the DST-II/III formulas; the MatrixArray versions transform every pair function a<=b from the old data, write both triangles, flip the flag, and raise ValueError iff already in the target space. Round trip and linearity: lemmas over those contracts under wf(D) and the assumed DST inverse pair.',
        'assumptions': [A_FP, A_INT, A_NUMPY, A_RANK, A_EXT % 'scipy.fftpack.dst types 2/3 are the defining sine sums, linear, and dst3(dst2(x)) = 2N x (bounded run-time check only)', A_TRANS],
    },
    'C09': {
        'level': 'proof',
        'technique': TECH,
        'explanation': 'Each closure calculate() body is symbolically executed from the current source and shown equal, for every gamma/u/r/sigma and every array length, to the pointwise spec F(gamma_i,u_i) / -1-gamma_i taken from the property statement (return value, stored value, frame: inputs unmodified, raised exceptions); elementwise by construction of the pointwise terms; Taylor (c=-u+O(2)) and alias clauses are lemmas over those specs and the class definitions.',
        'assumptions': [A_FP, A_ASSERT, A_NUMPY, A_TRANS, 'r and gamma have the same length (call sites pass the domain grid)'],
    },
    'C10': {
        'level': 'proof',
        'technique': TECH,
        'explanation': 'Each potential calculate() body (pre-state produced by running the real constructor symbolically, so the captured lambda is the shipped one) is refined against the documented u(r) for all parameters, grids and lengths: core/tail split at sigma, LJ cut/shift paths, WCA with c^6=2; frame (r unmodified), repeatability (re-evaluation after re-assignment of sigma/rcut/shift). Sigma defaulting: Diameter contracts + PRISM.__init__. Contact clause decided in reals against the tolerance literal of System.check.',
        'assumptions': [A_FP, A_ASSERT, A_NUMPY, A_TRANS, 'A6: direct mutation of epsilon/alpha/high_value captured by the constructor lambda is outside the public API considered'],
    },
    'C11': {
        'level': 'other',
        'technique': TECH + '; inductive lemmas (closed form == pair sum) by z3; floating-point behaviour, quadrature and Koyama moments only by a bounded stand-in',
        'explanation': 'Gaussian/FJC calculate() refined against closed(E,N) for symbolic integer N; GaussianRing against the sum over the N separations and DiscreteKoyama.calculate against the defining double sum over site pairs i<j, both for SYMBOLIC N: the accumulation loops of the code are summarised as uninterpreted finite sums and matched with the sums of the contract (bounds equal, summands equal at a generic index; unrolled N<=8 kept as extra cases); Koyama kernel: koyama_kernel_fourier against the documented sin(Bk)/(Bk) exp(-A^2 k^2), kernel_base against the shipped transcription of the paper (trusted formula), constructor rejections, linearised branch and root-solve branch (epsilon = the point that scipy.optimize.root reports, cos2 = second moment there, failure -> ValueError), cos_avg/cos_sq_avg against the bond-angle moments; SingleSite/NoIntra constant in fresh storage whatever was evaluated or edited before; all constructors. Lemmas: closed form == (1/N) sum_ij E^|i-j| (induction step as rational identity), limits k->0 (N), k->inf (1), bound <= N for |E|<=1, ring symmetry w_t = w_(N-t). Out of reach and bounded only: NFJC quadrature, that the reported point IS a root of the bending-energy equation, IEEE cancellation at small k.',
        'assumptions': [A_FP, A_INT, A_NUMPY, A_TRANS, 'DiscreteKoyama.kernel_base is verified only against the shipped transcription of the moment formulas of Honnell et al. (no independent statement available: TRUSTED FORMULA)', 'scipy.optimize.root in DiscreteKoyama.__init__: assumed contract R1/R2 (last evaluation at the reported point, success flag arbitrary); convergence to a root only by the bounded stand-in', 'finite sums over a symbolic range are uninterpreted: two sums are equal when their bounds are equal and their summands are equal at every index (extensionality); code and contract must nest them in the same order', 'NonOverlappingFreelyJointedChain.calculate (fixed-grid quadrature) is outside the verified subset: bounded stand-in only', 'the native cross-check of Gaussian/FreelyJointedChain.calculate draws its concrete samples with k*sigma (k*l) > 0.05: below that the double-precision closed form has lost its digits (the recorded known finding, decided by the bounded floating-point stand-in); the symbolic obligations cover every real k'],
    },
    'C12': {
        'level': 'proof',
        'technique': TECH,
        'explanation': 'FromArray/FromFile constructors and calculate() refined against specs: stored value is a fresh copy of the caller\'s array; calculate raises AssertionError iff length or k column mismatch (allclose as assumed predicate), otherwise returns the stored data verbatim; PairTable.exportToMatrixArray raises ValueError iff pair lengths differ; MatrixArray.dot raises on unequal lengths (assumed einsum rule), so a wrong-length one-column file cannot survive the first cost evaluation.',
        'assumptions': [A_FP, A_ASSERT, A_NUMPY, A_RANK, A_EXT % 'np.loadtxt shapes (2-D for two columns, 1-D for one column, 0-d for one number), np.allclose as an uninterpreted predicate, np.einsum length rule'],
    },
    'C13': {
        'level': 'proof',
        'technique': TECH,
        'explanation': 'Every MatrixArray method and IdentityMatrixArray.__init__ refined against whole-view specs: constructor (zeros / aliasing the given data, asserts), __setitem__ writes both (a,b) and (b,a) and nothing else, __getitem__/get return views, ValueError on unknown types, + - * / and in-place forms with MatrixArray / scalar / broadcastable ndarray operands (result fresh vs. in place: storage tokens), space rule over all 9 flag pairs, dot/@/@=/invert against assumed einsum/inv contracts, get_copy fresh.',
        'assumptions': [A_FP, A_ASSERT, A_NUMPY, A_RANK, A_EXT % 'np.einsum("lij,ljk") is the per-l matrix product, np.linalg.inv(A) is a two-sided inverse of A'],
    },
    'C14': {
        'level': 'proof',
        'technique': TECH + '; whole-view postconditions give the map semantics for every history by induction',
        'explanation': 'Table.listify and every PairTable/ValueTable method refined against keyed-map specs for type lists of 1..4 distinct labels: __setitem__ with single keys and lists stores an independent deep copy per pair (alias structure compared), both orientations, nothing else changed; __getitem__, __iter__, iterpairs for the three flag combinations in type-list order, check raises ValueError iff some entry is None, setUnset fills exactly the unset entries, apply in/out of place, exportToMatrixArray.',
        'assumptions': [A_TYPES, A_RANK, A_EXT % 'copy.deepcopy returns a structurally equal object graph disjoint from the original', A_NUMPY],
    },
    'C15': {
        'level': 'proof',
        'technique': TECH + '; representation invariants as postconditions of constructor and __setitem__ (induction over assignment histories)',
        'explanation': 'Density/Diameter __init__, __setitem__ (single type or list, any subset already assigned, re-assignment), __getitem__, check refined against specs and shown to re-establish Inv_rho (pair=rho_a rho_b, site diag rho_a / off-diag rho_a+rho_b, total=sum) and Inv_d (sigma=(d_a+d_b)/2, volume=pi d^3/6) for every assigned subset.',
        'assumptions': [A_FP, A_TYPES, A_RANK, A_NUMPY, 'assigned values are modelled as real numbers (immutable); what a mutable number object does (0-d numpy array, np.asarray result) is covered only by the bounded stand-in density-diameter-histories-with-numpy-valued-assignments'],
    },
}

NOT_APPLICABLE = {
    'C18': 'Debyer is a Cython/OpenMP extension that is not built and cannot be built here (np.int removed from the pinned numpy); no running code to bind a contract to, and the property is about thread schedules and reduction order, on which contract-based deductive verification is silent',
}

A_INV = 'np.linalg.inv is modelled by its defining equations inv(A) A = A inv(A) = I: results hold for the invertible matrices on which numpy returns (singular I - Omega C raises LinAlgError in numpy; not covered)'
A_ROOT = 'A5 (R1/R2): scipy.optimize.root evaluates the cost function finitely often, the last time at the returned x, and returns fun = cost(x); convergence and accuracy of the solver are NOT verified'
A_DST = A_EXT % 'scipy.fftpack.dst types 2/3 are functions of their input array (matched call by call), are the defining sine sums, linear, and mutually inverse up to 2N'

PROPS.update({
    'C02': {
        'level': 'other',
        'technique': 'lemmas over the verified contracts (dilute limit, prefactor chain) by z3 + the code-facing obligations they rest on; agreement with Wertheim-Thiele and the O(dr) refinement clause only by a bounded stand-in (real solves)',
        'explanation': 'Deductive part: (i) the code-facing contracts that pin every prefactor the analytic results depend on -- transforms (4 pi, 1/(2 pi^2), phase), PRISM.__init__ (u/kT with the current kT, site-density scaling), PRISM.cost (PRISM equation), pair_correlation/structure_factor/second_virial definitions; (ii) lemma: for a single-site molecule hhat - chat = rho chat^2/(1 - rho chat), so at vanishing density g = 1 + F(0,u) = exp(-u) (PY, HNC) / 1-u (MSA) and B2 -> -2 pi sum (e^-u - 1) r^2 dr. NOT deductive (no contract on these functions expresses it): that the converged numerical solution agrees with the Wertheim-Thiele closed forms to O(dr) and improves under dr -> dr/2. That clause is covered only by the bounded stand-in (eta in {0.1,0.3,0.45}, two grids, dilute limit for 4 potentials x 3 closures x 3 temperatures incl. re-assigned kT).',
        'assumptions': [A_FP, A_NUMPY, A_RANK, A_DST, A_INV, A_ROOT, 'discretisation error of the nonlinear integral equation and convergence of the iterative solver: NOT verified, bounded stand-in only'],
    },
    'C04': {
        'level': 'other',
        'technique': 'relational (2-safety) lemmas over the contract of PRISM.cost / PRISM.__init__ by z3 (abstract ring with a permutation conjugation; nonlinear reals for the species split; homogeneity of the potential specs) + the code-facing obligations they rest on; equality of two converged solves only by a bounded stand-in',
        'explanation': 'Lemmas: (perm) the matrix part of cost is equivariant under conjugation with a permutation matrix, and all other access is keyed by type name (C13/C15/C16 contracts), so roots map to roots; (scale) every potential spec is homogeneous of degree one in its energy parameters, PRISM.__init__ hands each closure U/kT, so the reduced problem is identical and pmf scales; (split) with the sum rule on the split omegas, H_ab = rho_a rho_b h, C_ab = c solves the 2x2 equation iff (h,c) solves the unsplit one -- this pins the site/pair density conventions. Code-facing: PRISM.__init__, PRISM.cost, Density.__setitem__, MatrixArray get/setitem, pmf. That two converged *solves* agree presupposes the solver reaches the corresponding root: bounded stand-in (permutation, 6 splits, 2 scalings, 4-step sweep).',
        'assumptions': [A_FP, A_NUMPY, A_RANK, A_INV, A_ROOT, A_TYPES, 'uniqueness of the root reached by the solver: NOT verified'],
    },
    'C17': {
        'level': 'proof',
        'technique': TECH + '; pint modelled by a quantity algebra (magnitude, scale to SI, dimension vector, offset) whose unit facts are read from the installed registry',
        'explanation': 'The six conversion methods are symbolically executed on real UnitConverter objects (constructor run symbolically, incl. the registry definitions) for 4 combinations of length/energy units, scalar and array arguments, and with a second converter of different units alive in the process; each result is compared -- dimension, unit and magnitude -- with the textbook formula written with the exact SI k_B and N_A and the characteristic values as given to the constructor: T=T* e_c/(k_B[N_A]), T-273.15, k*/d_c [x10], rho*/(d_c^3 N_A) in mol/L, rho* pi d^3/6 dimensionless. No-exception, linearity/affinity and elementwise behaviour follow from the pointwise form.',
        'assumptions': [A_FP, A_NUMPY, 'pint 0.26 itself is trusted: unit-expression parsing, Quantity arithmetic rules (* / ** .to, DimensionalityError iff dimensions differ, offset units), and the registry values of the unit names used (read from the installed registry on every run, compared against exact SI k_B, N_A by the specs)', 'unit strings exercised: nanometer/angstrom/micrometer, kilojoule/mole, kcal/mol, joule, eV'],
    },
    'C01': {
        'level': 'proof',
        'technique': TECH + '; PRISM equation as an abstract-ring lemma over the postcondition of PRISM.cost (z3, hint chain)',
        'explanation': 'PRISM.__init__, PRISM.cost and PRISM.solve are refined against specs written from the PRISM equation and the closure definitions (ranks 1-3, mixes of the shipped closures/potentials/omegas, every x and grid): after cost(x) the stored arrays are c_ab = closure_ab(r, x/r), C = to_fourier(c), rho_pair o H = (I - Omega C)^-1 Omega C Omega, y = r(to_real(H - C) - x/r), independent of any earlier evaluation; solve leaves the arrays of the last evaluation (= the returned root, assumed R2) with totalCorr transformed once. Lemmas: that postcondition is the matrix PRISM equation H = Omega C (Omega + H) for every rank; the closure discrepancy of the stored functions equals F(G) - F(G + y/r) (residual times a difference quotient, no absolute tolerance).',
        'assumptions': [A_FP, A_ASSERT, A_NUMPY, A_RANK, A_INV, A_ROOT, A_DST, A_TRANS],
    },
    'C05': {
        'level': 'proof',
        'technique': TECH + '; rational-function identities by sympy with z3-discharged side conditions; cross-identities as abstract-ring lemmas',
        'explanation': 'The seven calculate.* functions are refined (ranks 1-3, all 2^3 storage-space combinations of the three arrays as symbolic flags, both values of every flag) against specs written from the definitions: g=h+1, pmf=-kT ln g, S=rho_pair h+Omega [/rho_site], B2=-h(k->0)/2 or the quadratic through the 3 lowest k at 0, spinodal = extrapolated det(I - Omega C) of each pair\'s 2x2 block with the object\'s own omega (8-term curve == determinant), solvation = to_real(-kT C S C | -kT ln(1+C S C)) with S from structure_factor\'s contract; chi: property clauses on the code\'s post-state (equal volumes: (rho/2)(C_aa+C_bb-2C_ab); general: one k-independent factor times C_aa/R + R C_bb - 2 C_ab; both orientations share the value). Lemmas: S = (I-Omega C)^-1 Omega on self-consistent objects; symmetry of H, S and C S C.',
        'assumptions': [A_FP, A_ASSERT, A_NUMPY, A_RANK, A_DST, A_EXT % 'np.polyfit(x,y,2) through 3 distinct points is the interpolating quadratic (evaluated at 0 by the Lagrange formula)', A_TRANS, 'pre-state arrays are symmetric in the two type labels (what MatrixArray.__setitem__ maintains); domain length >= 3'],
    },
    'C06': {
        'level': 'proof',
        'technique': TECH + '; abstract-state invariant: every calculate.* only flips the representation of a stored array (frame comparison of all pre-existing objects), round trip by lemma',
        'explanation': 'Every calculate.* function is verified, for every storage-space combination, to (i) return normally, (ii) leave every pre-existing object and array equal to what its definition-level spec leaves: the three stored arrays are either untouched or transformed exactly once through Domain.MatrixArray_to_* with the flag flipped, nothing else on the PRISM object or its System is written, (iii) return a value that is a function of the real-space content only. With the round-trip lemma (C07) the abstract content (h, c, Omega) is invariant under every operation of the alphabet, so by induction any finite history returns what a fresh object returns. solve: state after solve = state of the last cost evaluation (function of x, sys, omega only) with totalCorr in real space.',
        'assumptions': [A_FP, A_ASSERT, A_NUMPY, A_RANK, A_DST, A_ROOT, 'that a re-solve started from the object\'s own x returns the same root is a statement about scipy\'s solver: assumed, bounded stand-in only'],
    },
    'C08': {
        'level': 'proof',
        'technique': TECH + '; prefactor / phase identities by z3 over the contract formulas and the DST definitions',
        'explanation': 'Domain.to_fourier/to_real and build_grid are refined against F_j = dst2(2 pi r dr f)_j / k_j and f_i = dst3(k dk/(4 pi^2) F)_i / r_i on a well-formed grid. Lemma: substituting the DST-II/III definitions these are (4 pi/k_j) sum_n r_n f_n sin(k_j (r_n - dr/2)) dr and 1/(2 pi^2 r_i) sum_n k_n F_n sin(k_n (r_i - dr/2)) dk (+ boundary term): the individual prefactors 4 pi and 1/(2 pi^2) and the phase dk = pi/(dr N) are pinned separately; k->0 limit of sin(kx)/k. The O(dr) error bound under grid refinement is numerical analysis of a Riemann sum: not decidable by contracts, bounded stand-in only.',
        'assumptions': [A_FP, A_NUMPY, A_DST, 'discretisation error <= const*dr and its decrease under refinement: NOT proved (bounded stand-in)'],
    },
    'C16': {
        'level': 'proof',
        'technique': TECH + '; frame / ownership by comparison of every pre-existing object and of the alias structure of fresh ones',
        'explanation': 'System.__init__/check/createPRISM/solve and PRISM.__init__ are refined against specs: check raises ValueError iff any table entry or the domain is missing and modifies nothing; createPRISM/solve call check first and let its exception escape; PRISM.__init__ wires a private deep copy (per pair: contact distance (d_a+d_b)/2, potential on the domain r grid divided by the *current* kT, explicit sigma kept; omega on the k grid times site density, Fourier flag; array shapes) and leaves the caller\'s System and everything reachable from it untouched and unshared (type-label lists excepted). Pre-states are real System objects built by the constructor with an earlier kT and then edited (sweeps).',
        'assumptions': [A_FP, A_ASSERT, A_NUMPY, A_RANK, A_TYPES, A_EXT % 'copy.deepcopy returns a structurally equal object graph disjoint from the original', A_ROOT, 'equality of a swept System\'s *solved* result with a fresh System\'s presupposes a deterministic solver: follows from wiring equality + determinism of cost; bounded stand-in only'],
    },
})

for _p in ():
    PROPS.setdefault(_p, {'level': 'proof', 'technique': TECH, 'explanation': 'under construction', 'assumptions': [A_FP, A_ASSERT, A_NUMPY], 'registered': False})

NOT_APPLICABLE = {
    'C18': 'Debyer is a Cython/OpenMP extension that is not built and cannot be built here (np.int removed from the pinned numpy); no running code to bind a contract to, and the property is about thread schedules and reduction order, on which contract-based deductive verification is silent',
}

for _p in ('C01', 'C02', 'C04', 'C05', 'C06', 'C08', 'C16', 'C17'):
    PROPS.setdefault(_p, {'level': 'proof', 'technique': TECH, 'explanation': 'under construction', 'assumptions': [A_FP, A_ASSERT, A_NUMPY], 'registered': False})
