"""Concrete differential replay: the real repo function against its contract's spec function,
both run natively (CPython + numpy) on twin pre-states built by the same case builder."""
import enum
import importlib
import math
import types
import warnings
import numpy as np
from .factory import ConcFactory, Reject, Opaque
from .api import PreconditionViolated

RTOL = 1e-9
RTOL0 = 1e-9
ATOL = 1e-11


def resolve_real(target):
    path, qual = target.split('::')
    mod = importlib.import_module(path[:-3].replace('/', '.'))
    parts = qual.split('.')
    obj = getattr(mod, parts[0])
    if len(parts) == 1:
        return obj
    if len(parts) == 3 and parts[2] in ('setter', 'getter'):
        p = obj.__dict__[parts[1]]
        return p.fset if parts[2] == 'setter' else p.fget
    return obj.__dict__[parts[1]] if parts[1] in obj.__dict__ else getattr(obj, parts[1])


def run_native(fn, args):
    with warnings.catch_warnings():
        warnings.simplefilter('ignore')
        with np.errstate(all='ignore'):
            try:
                r = fn(**dict((k, v) for k, v in args.items() if not k.startswith('_')))
                if isinstance(r, types.GeneratorType):
                    r = ('generator', list(r))
                return ('return', r)
            except PreconditionViolated:
                raise
            except Exception as e:       # noqa
                return ('raise', type(e).__name__)


class Snap(object):
    def __init__(self):
        self.ids = {}
        self.bufs = {}
        self.keep = []

    def take(self, v):
        if v is None or isinstance(v, (bool, str)):
            return v
        if isinstance(v, (int, float)):
            return v
        if isinstance(v, np.generic):
            return v.item()
        if isinstance(v, enum.Enum):
            return ('enum', type(v).__name__, v.name)
        if isinstance(v, np.ndarray):
            root = v
            while isinstance(root.base, np.ndarray):
                root = root.base
            self.keep.append(root)
            b = self.bufs.setdefault(id(root), len(self.bufs))
            off = v.__array_interface__['data'][0] - root.__array_interface__['data'][0]
            kind = 'b' if v.dtype == bool else ('i' if v.dtype.kind in 'iu' else v.dtype.kind)
            if v.dtype == object:
                vals = [self.take(x) for x in v.ravel().tolist()]
            else:
                vals = v.ravel().tolist()
            return ('arr', tuple(v.shape), kind, vals, b, off, tuple(v.strides) if v.size > 1 else ())
        if isinstance(v, list) and v and all(isinstance(x, str) for x in v):
            return ('labels', list(v))          # type-label lists: by value (A7)
        if isinstance(v, (list, dict)) or hasattr(v, '__dict__') and not isinstance(v, (types.FunctionType, types.MethodType, type, types.ModuleType)):
            if id(v) in self.ids:
                return ('ref', self.ids[id(v)])
            self.ids[id(v)] = len(self.ids)
            self.keep.append(v)
            n = self.ids[id(v)]
            if isinstance(v, list):
                return ('list', n, [self.take(x) for x in v])
            if isinstance(v, dict):
                return ('dict', n, {repr(k): self.take(x) for k, x in v.items()})
            try:
                import pint
                if isinstance(v, pint.Quantity):
                    try:
                        b = v.to_base_units()
                        base = (self.take(b.magnitude), str(b.units))       # what the unit *means* in this registry
                    except Exception:
                        base = None
                    return ('qty', self.take(v.magnitude), str(v.units), base)
                if isinstance(v, pint.UnitRegistry):
                    return ('registry',)
            except ImportError:
                pass
            if isinstance(v, Opaque):
                return ('opaque', n, v.name, self.take(v.payload))
            return ('obj', n, type(v).__name__, {k: self.take(x) for k, x in sorted(v.__dict__.items())})
        if isinstance(v, tuple):
            return ('tuple', [self.take(x) for x in v])
        if isinstance(v, (set, frozenset)):
            return ('set', sorted(repr(x) for x in v))
        if isinstance(v, (types.FunctionType, types.MethodType)):
            return ('func', getattr(v, '__qualname__', '?'))
        if isinstance(v, type):
            return ('class', v.__name__)
        if isinstance(v, range):
            return ('range', v.start, v.stop, v.step)
        return ('other', type(v).__name__)


def num_eq(a, b):
    if isinstance(a, bool) or isinstance(b, bool):
        return a is b or a == b and type(a) is type(b)
    fa, fb = float(a), float(b)
    if math.isnan(fa) or math.isnan(fb):
        return math.isnan(fa) and math.isnan(fb)
    if math.isinf(fa) or math.isinf(fb):
        return fa == fb
    return abs(fa - fb) <= ATOL + RTOL * max(abs(fa), abs(fb))


COMPARE_ALIASING = True     # off in the run-time monitor: copy.deepcopy of the arguments does not preserve numpy view relations
NOISE = None      # {path: absolute noise level} while a sensitivity-aware comparison is running
COLLECT = None    # {path: max |difference|} while the noise of a perturbed run is being measured


def _abs_diff(x, y):
    try:
        fx, fy = float(x), float(y)
    except (TypeError, ValueError):
        return 0.0
    if math.isnan(fx) or math.isnan(fy) or math.isinf(fx) or math.isinf(fy):
        return 0.0 if (fx == fy or (math.isnan(fx) and math.isnan(fy))) else float('inf')
    return abs(fx - fy)


_PAIR = {'obj': ({}, {}), 'buf': ({}, {})}


def reset_pairing():
    """Object and buffer numbers are positions in each side's own traversal; what is compared is the *aliasing
    structure*, i.e. that the two numberings are related by a bijection over the compared items (A19: an extra private
    array held in an attribute no contract mentions used to shift the numbers and raise a false alarm)."""
    for k in _PAIR:
        _PAIR[k] = ({}, {})


def _pair(kind, x, y):
    ab, ba = _PAIR[kind]
    if x in ab or y in ba:
        return ab.get(x, None) == y and ba.get(y, None) == x
    ab[x] = y
    ba[y] = x
    return True


_NUMBERED = ('obj', 'list', 'dict', 'opaque', 'ref')


def diff(a, b, path, out, limit=12, ignore=()):
    if len(out) >= limit:
        return
    if isinstance(a, (int, float)) and isinstance(b, (int, float)) and not isinstance(a, bool) and not isinstance(b, bool):
        if COLLECT is not None:
            COLLECT[path] = max(COLLECT.get(path, 0.0), _abs_diff(a, b))
            return
        if not num_eq(a, b):
            if NOISE is not None and _abs_diff(a, b) <= NOISE.get(path, 0.0):
                return
            out.append('%s: %r != %r' % (path, a, b))
        return
    if type(a) is not type(b):
        out.append('%s: %s vs %s' % (path, _short(a), _short(b)))
        return
    if isinstance(a, tuple):
        if a and a[0] == 'arr' and b and b[0] == 'arr':
            if a[1] != b[1]:
                out.append('%s: shape %s vs %s' % (path, a[1], b[1]))
                return
            if (a[2] == 'b') != (b[2] == 'b'):
                out.append('%s: dtype kind %s vs %s' % (path, a[2], b[2]))
            if COMPARE_ALIASING:
                if not _pair('buf', a[4], b[4]):
                    out.append('%s: aliases different storage (buffer #%d vs #%d)' % (path, a[4], b[4]))
                elif a[5] != b[5] or a[6] != b[6]:
                    out.append('%s: different view of the same storage' % path)
            if COLLECT is not None:
                COLLECT[path] = max([COLLECT.get(path, 0.0)] + [_abs_diff(x, y) for x, y in zip(a[3], b[3])
                                                             if isinstance(x, (int, float)) and isinstance(y, (int, float))])
                return
            bad = [i for i, (x, y) in enumerate(zip(a[3], b[3])) if not _leaf_eq(x, y)]
            if bad and a[2] != 'b':
                # norm-wise tolerance: matrix computations are accurate relative to the largest entries of the result
                fin = [abs(v) for v in list(a[3]) + list(b[3]) if isinstance(v, (int, float)) and not isinstance(v, bool) and v == v and abs(v) != float('inf')]
                big = max(fin) if fin else 0.0
                bad = [i for i in bad if not (isinstance(a[3][i], (int, float)) and isinstance(b[3][i], (int, float))
                                             and _abs_diff(a[3][i], b[3][i]) <= RTOL * big)]
            if bad and NOISE is not None:
                lvl = NOISE.get(path, 0.0)
                bad = [i for i in bad if not (isinstance(a[3][i], (int, float)) and isinstance(b[3][i], (int, float))
                                             and _abs_diff(a[3][i], b[3][i]) <= lvl)]
            if bad:
                i = bad[0]
                out.append('%s: %d of %d elements differ, first at flat index %d: %r != %r'
                           % (path, len(bad), len(a[3]), i, a[3][i], b[3][i]))
            return
        if len(a) != len(b):
            out.append('%s: %s vs %s' % (path, _short(a), _short(b)))
            return
        numbered = len(a) > 1 and a[0] == b[0] and isinstance(a[0], str) and a[0] in _NUMBERED
        if numbered and COMPARE_ALIASING and isinstance(a[1], int) and isinstance(b[1], int) and not _pair('obj', a[1], b[1]):
            out.append('%s: aliases a different object (#%d vs #%d)' % (path, a[1], b[1]))
            return
        for i, (x, y) in enumerate(zip(a, b)):
            if numbered and i == 1:
                continue
            diff(x, y, '%s' % path if i < 2 and isinstance(x, (str, int)) else '%s.%d' % (path, i), out, limit, ignore)
        return
    if isinstance(a, list):
        if len(a) != len(b):
            out.append('%s: length %d vs %d' % (path, len(a), len(b)))
            return
        for i, (x, y) in enumerate(zip(a, b)):
            diff(x, y, '%s[%d]' % (path, i), out, limit, ignore)
        return
    if isinstance(a, dict):
        from . import run as _run
        fp = _run.footprint()
        if fp and not any(k.startswith("'") or k.startswith('"') or k.startswith('(') for k in list(a) + list(b)):
            # fields of an object: attributes no contract mentions are not compared directly (see run.footprint)
            if all(isinstance(k, str) for k in list(a) + list(b)) and (set(a) | set(b)) - fp:
                unknown = (set(a) | set(b)) - fp
                if all(k.isidentifier() for k in unknown):
                    a = dict((k, v) for k, v in a.items() if k not in unknown)
                    b = dict((k, v) for k, v in b.items() if k not in unknown)
        if ignore:
            a = dict((k, v) for k, v in a.items() if k not in ignore)
            b = dict((k, v) for k, v in b.items() if k not in ignore)
        if set(b) - set(a):
            out.append('%s: missing %s' % (path, sorted(set(b) - set(a))))
            return
        for k in b:
            diff(a[k], b[k], '%s.%s' % (path, k), out, limit, ignore)
        return
    if a != b:
        out.append('%s: %r != %r' % (path, a, b))


def _leaf_eq(x, y):
    if isinstance(x, (int, float)) and isinstance(y, (int, float)):
        return num_eq(x, y)
    o = []
    diff(x, y, '', o, 1)
    return not o


def _short(v):
    s = repr(v)
    return s if len(s) < 80 else s[:77] + '...'


def trial(contract, build, values=None, seed=0, ignore=(), only=None, post_body=None):
    """Run one differential trial.  Returns None (agree), 'reject', or a dict describing the disagreement."""
    fa = ConcFactory(values, seed)
    fb = ConcFactory(values, seed)
    try:
        with warnings.catch_warnings():
            warnings.simplefilter('ignore')
            with np.errstate(all='ignore'):
                args_a = build(fa)
                args_b = build(fb)
    except Reject:
        return 'reject'
    except Exception:
        # the real constructors / setters used to build the pre-state refused these parameters
        return 'reject'
    real = resolve_real(contract.target)
    from . import api as _api
    _api.WORST_COND[0] = 1.0
    try:
        out_b = run_native(contract.spec, args_b)
    except PreconditionViolated:
        return 'reject'
    global RTOL
    if _api.WORST_COND[0] > 1e8:
        return 'reject'        # a matrix inverted by the contract is numerically singular: rounding decides the result
    RTOL = max(RTOL0, 1e3 * 2.3e-16 * _api.WORST_COND[0])
    out_a = run_native(real, args_a)
    diffs = []
    if only is not None:
        # property-filtered check: only the named conditions on the code's own post-state
        import fnmatch
        if out_a[0] == 'return' and post_body is not None:
            with warnings.catch_warnings():
                warnings.simplefilter('ignore')
                with np.errstate(all='ignore'):
                    for nm, ok in post_body(fa, args_a, out_a[1]):
                        nm = 'post_body: ' + nm
                        if any(fnmatch.fnmatchcase(nm, p) for p in only) and not ok:
                            diffs.append('%s: does not hold on the post-state of the real code' % nm)
        elif out_a[0] != out_b[0] and any(fnmatch.fnmatchcase('outcome', p) for p in only):
            diffs.append('outcome: code %s, contract %s' % (out_a, out_b[0]))
    elif out_a[0] != out_b[0]:
        diffs.append('outcome: code %s, contract %s' % (
            'returns' if out_a[0] == 'return' else 'raises ' + out_a[1],
            'returns' if out_b[0] == 'return' else 'raises ' + out_b[1]))
    elif out_a[0] == 'raise':
        if out_a[1] != out_b[1]:
            diffs.append('outcome: code raises %s, contract raises %s' % (out_a[1], out_b[1]))
    else:
        sa, sb = Snap(), Snap()
        ra = sa.take([out_a[1]] + [args_a[k] for k in sorted(args_a)])
        rb = sb.take([out_b[1]] + [args_b[k] for k in sorted(args_b)])
        names = ['return'] + ['arg ' + k for k in sorted(args_a)]
        reset_pairing()
        for nm, x, y in zip(names, ra[2], rb[2]):
            if any(nm == p or nm.startswith(p + '.') or nm.startswith(p + '[') for p in ignore):
                continue
            diff(x, y, nm, diffs, ignore=ignore)
        if post_body is not None:
            with warnings.catch_warnings():
                warnings.simplefilter('ignore')
                with np.errstate(all='ignore'):
                    for nm, ok in post_body(fa, args_a, out_a[1]):
                        if not ok:
                            diffs.append('post_body: %s: does not hold on the post-state of the real code' % nm)
    if diffs and only is None and out_a[0] == 'return' and out_b[0] == 'return' and not _sensitive_check_disabled:
        diffs = _filter_by_sensitivity(contract, build, fa.used, seed, real, names, ra, rb, ignore, diffs, post_body)
        if diffs == 'ill-conditioned':
            return 'reject'
    if not diffs:
        return None
    return {'inputs': _jsonable(fa.used), 'diffs': diffs, 'seed': seed,
            'code_outcome': out_a[0] if out_a[0] == 'return' else 'raise ' + out_a[1],
            'contract_outcome': out_b[0] if out_b[0] == 'return' else 'raise ' + out_b[1]}


_sensitive_check_disabled = False
PERTURB = 1e-12


def _perturbed(values, seed, level=None):
    """Relative perturbation of every float input at the 1e-12 level.  Equal values receive the *same* perturbation
    (the factor is a function of the value), so coincidences between inputs -- a grid point equal to sigma, two equal
    diameters -- survive: a `>` vs `>=` slip is a discontinuity, not ill-conditioning."""
    import random
    import zlib

    def pert(v):
        if v == 0.0 or v != v or v in (float('inf'), float('-inf')):
            return v
        rng = random.Random(zlib.crc32(repr(float(v)).encode()) ^ (seed * 7919 + 13))
        return v * (1.0 + (PERTURB if level is None else level) * rng.uniform(-1, 1))
    out = {}
    for k, v in values.items():
        if isinstance(v, bool) or isinstance(v, int):
            out[k] = v
        elif isinstance(v, float):
            out[k] = pert(v)
        elif isinstance(v, list):
            a = np.array(v)
            if a.dtype.kind == 'f':
                a = np.array([pert(float(x)) for x in a.ravel()]).reshape(a.shape)
            out[k] = a.tolist()
        else:
            out[k] = v
    return out


def _filter_by_sensitivity(contract, build, used, seed, real, names, ra, rb, ignore, diffs, post_body):
    """Numerical disagreements count only when they exceed what a 1e-12 .. 1e-9 relative perturbation of the inputs does to
    the result of the contract and of the code themselves (ill-conditioned pre-states -- a nearly singular I - Omega C,
    cancellation -- amplify rounding in *both*; two algebraically equal evaluation orders then differ far above 1e-9)."""
    global NOISE, COLLECT
    try:
        noise = {}
        # three perturbation levels: a perturbation below the resolution of an intermediate (1 - E with E = 1 - 1e-6)
        # leaves a catastrophic cancellation invisible at 1e-12; the noise per component is the largest one seen
        for li, level in enumerate((PERTURB, 1e-10, 1e-9)):
            pv = _perturbed(dict((k, (v.tolist() if isinstance(v, np.ndarray) else v)) for k, v in used.items()), seed + li, level)
            fa2, fb2 = ConcFactory(pv, seed), ConcFactory(pv, seed)
            with warnings.catch_warnings():
                warnings.simplefilter('ignore')
                with np.errstate(all='ignore'):
                    a2, b2 = build(fa2), build(fb2)
            oa2 = run_native(real, a2)
            ob2 = run_native(contract.spec, b2)
            if oa2[0] != 'return' or ob2[0] != 'return':
                if li == 0:
                    return diffs
                continue
            ra2 = Snap().take([oa2[1]] + [a2[k] for k in sorted(a2)])
            rb2 = Snap().take([ob2[1]] + [b2[k] for k in sorted(b2)])
            COLLECT = noise
            reset_pairing()
            for nm, x, y in zip(names, ra[2], ra2[2]):
                diff(x, y, nm, [], limit=10 ** 9, ignore=ignore)
            reset_pairing()
            for nm, x, y in zip(names, rb[2], rb2[2]):
                diff(x, y, nm, [], limit=10 ** 9, ignore=ignore)
            COLLECT = None
        # ill-conditioned pre-state (amplification of a 1e-12 perturbation beyond 1e5, or non-finite noise):
        # rounding dominates both sides; such a sample can neither confirm nor refute anything
        scale = {}
        COLLECT = scale
        reset_pairing()
        for nm, x, y in zip(names, rb[2], _zero_like(rb[2])):
            diff(x, y, nm, [], limit=10 ** 9, ignore=ignore)
        COLLECT = None
        for k, v in noise.items():
            if v != v or v == float('inf') or v > 1e-7 * max(scale.get(k, 0.0), 1e-300) and v > 1e-9:
                return 'ill-conditioned'
        NOISE = dict((k, v) for k, v in noise.items() if v == v)
        out = []
        reset_pairing()
        for nm, x, y in zip(names, ra[2], rb[2]):
            if any(nm == p or nm.startswith(p + '.') or nm.startswith(p + '[') for p in ignore):
                continue
            diff(x, y, nm, out, ignore=ignore)
        NOISE = None
        out += [d for d in diffs if d.startswith('post_body')]
        return out
    except Exception:
        return diffs
    finally:
        NOISE = None
        COLLECT = None


def _zero_like(x):
    if isinstance(x, bool):
        return x
    if isinstance(x, (int, float)):
        return 0.0
    if isinstance(x, tuple):
        if x and x[0] == 'arr':
            return ('arr', x[1], x[2], [0.0 if isinstance(v, (int, float)) and not isinstance(v, bool) else v for v in x[3]], x[4], x[5], x[6])
        return tuple(_zero_like(v) for v in x)
    if isinstance(x, list):
        return [_zero_like(v) for v in x]
    if isinstance(x, dict):
        return dict((k, _zero_like(v)) for k, v in x.items())
    return x


def _jsonable(d):
    out = {}
    for k, v in d.items():
        if isinstance(v, np.ndarray):
            v = v.tolist()
        out[k] = v
    return out


def search(contract, build, model_vals=None, n_random=200, seed=0, ignore=(), only=None, post_body=None, budget_s=None):
    """Directed search for a failing input: the solver's model first, then random pre-states (at most budget_s seconds)."""
    import time as _time
    t_end = None if budget_s is None else _time.time() + budget_s
    tried = 0
    rejected = 0
    if model_vals:
        r = trial(contract, build, model_vals, seed, ignore, only, post_body)
        tried += 1
        if isinstance(r, dict):
            r['from_model'] = True
            return r, tried
        # model values for some symbols, random for the rest
        for s in range(5):
            r = trial(contract, build, model_vals, seed + 1000 + s, ignore, only, post_body)
            tried += 1
            if isinstance(r, dict):
                r['from_model'] = True
                return r, tried
    s = 0
    while tried < n_random + (6 if model_vals else 0) and s < 20 * n_random and (t_end is None or _time.time() < t_end):
        r = trial(contract, build, None, seed + s, ignore, only, post_body)
        s += 1
        if r == 'reject':
            rejected += 1
            continue
        tried += 1
        if isinstance(r, dict):
            r['from_model'] = False
            return r, tried
    return None, tried
