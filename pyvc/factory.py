"""Pre-state factories: the same case builder runs against SymFactory (z3 symbols)
and ConcFactory (concrete values from a solver model or a random generator)."""
import importlib
import random
import z3
import numpy as np
from fractions import Fraction
from .sym import SOpt, SRef, SEnum, SEnumSym, to_z3, is_sym
from .arr import SArr, memo
from .state import SObj


class Reject(Exception):
    """Concrete sample violates an assumption of the builder."""


class SymFactory(object):
    symbolic = True

    def __init__(self, st, ip):
        self.st = st
        self.ip = ip
        self.names = {}       # symbol name -> ('real'|'int'|'bool'|'array'|..., info)
        self.roots = {}

    # scalars ---------------------------------------------------------------
    def real(self, name, lo=None, hi=None, pos=False, nonzero=False):
        v = z3.Real(name)
        self.names[name] = ('real', None)
        if lo is not None:
            self.st.assume(v >= to_z3(lo))
        if hi is not None:
            self.st.assume(v <= to_z3(hi))
        if pos:
            self.st.assume(v > 0)
        if nonzero:
            self.st.assume(v != 0)
        return v

    def int(self, name, lo=None, hi=None):
        v = z3.Int(name)
        self.names[name] = ('int', None)
        if lo is not None:
            self.st.assume(v >= lo)
        if hi is not None:
            self.st.assume(v <= hi)
        return v

    def bool(self, name):
        self.names[name] = ('bool', None)
        return z3.Bool(name)

    def const(self, v):
        if isinstance(v, float):
            return Fraction(repr(v))
        return v

    def assume(self, c):
        self.st.assume(c)

    def implies(self, a, b):
        return z3.Implies(a, b) if is_sym(a) or is_sym(b) else ((not a) or b)

    # arrays ----------------------------------------------------------------
    def array(self, name, shape, dtype='real', pos=False):
        if not isinstance(shape, (tuple, list)):
            shape = (shape,)
        shape = tuple(shape)
        rng = {'real': z3.RealSort(), 'int': z3.IntSort(), 'bool': z3.BoolSort()}[dtype]
        f = z3.Function(name, *([z3.IntSort()] * len(shape) + [rng]))
        self.names[name] = ('array', (shape, dtype))

        def fn(idx):
            return f(*[to_z3(i) if not is_sym(i) else i for i in idx])
        a = self.st.new_array(shape, fn, dtype)
        a.sym_name = name
        if pos:
            self.pos_arrays = getattr(self, 'pos_arrays', [])
            self.pos_arrays.append(f)
            self.st.pos_funcs = getattr(self.st, 'pos_funcs', [])
            self.st.pos_funcs.append((f, len(shape)))
        return a

    def array_of(self, shape, fn, dtype='real'):
        """Array defined pointwise from other symbols (e.g. a grid r_i = (i+1)*dr)."""
        if not isinstance(shape, (tuple, list)):
            shape = (shape,)
        return self.st.new_array(tuple(shape), lambda idx: fn(*idx), dtype)

    def view(self, arr, key):
        return self.ip.arr_index(arr, key)

    def scale_inplace(self, arr, c):
        """arr *= c  (the caller of a library function edits, in place, an array the library handed out)."""
        from .arr import store_write
        from .sym import mk_mul, to_real
        snap = arr.snapshot(self.st)
        store_write(self.st, arr, lambda vi: mk_mul(to_real(snap(vi)), to_real(c)))
        return arr

    def reshape(self, arr, shape):
        return self.ip.reshape(arr, shape)

    def min(self, a, b):
        from .sym import mk_ite, mk_cmp, is_sym
        return mk_ite(mk_cmp('<=', a, b), a, b) if (is_sym(a) or is_sym(b)) else min(a, b)

    def max(self, a, b):
        from .sym import mk_ite, mk_cmp, is_sym
        return mk_ite(mk_cmp('>=', a, b), a, b) if (is_sym(a) or is_sym(b)) else max(a, b)

    # objects ---------------------------------------------------------------
    def cls(self, ref):
        mod, name = ref.split(':')
        m = self.ip.import_name(mod)
        return m.env.vars[name]

    def obj(self, ref, **fields):
        c = self.cls(ref)
        return self.st.new_obj(c, **fields)

    def construct(self, ref, *args, **kwargs):
        """Run the real constructor (symbolically) to obtain a reachable pre-state object."""
        from .interp import run_to_completion
        c = self.cls(ref)
        return run_to_completion(self.ip.instantiate(c, list(args), kwargs))

    def make(self, ref, args=(), kwargs=None, **fields):
        """A pre-state object: created by the *real* constructor (so it carries every attribute a real object has),
        then its fields are overwritten with the given (symbolic) contents.  Raw writes: property setters are not run."""
        o = self.construct(ref, *args, **(kwargs or {}))
        self.st.heap[o.oid].update(fields)
        return o

    def setattr(self, obj, name, value):
        from .interp import run_to_completion
        run_to_completion(self.ip.setattr(obj, name, value))

    def getattr(self, obj, name):
        from .interp import run_to_completion
        return run_to_completion(self.ip.getattr(obj, name))

    def call(self, obj, method, *args, **kwargs):
        from .interp import run_to_completion
        m = run_to_completion(self.ip.getattr(obj, method))
        return run_to_completion(self.ip.call(m, list(args), kwargs))

    def enum(self, ref, member):
        c = self.cls(ref)
        return c.attrs[member]

    def enum_sym(self, name, ref, members=None):
        c = self.cls(ref)
        vals = sorted(v.value for v in c.attrs.values() if isinstance(v, SEnum) and (members is None or v.name in members))
        t = z3.Int(name)
        self.names[name] = ('enum', (ref, vals))
        self.st.assume(z3.Or(*[t == v for v in vals]))
        return SEnumSym(c.name, t)

    def opt(self, name, val):
        b = z3.Bool(name + '?none')
        self.names[name + '?none'] = ('bool', None)
        return SOpt(b, val)

    def ref(self, name):
        return SRef(name)

    def opt_derived(self, isnone, val):
        """Optional whose none-ness is a function of other symbols (keeps invariants true by construction)."""
        if isinstance(isnone, bool):
            return None if isnone else val
        return SOpt(isnone, val)

    def select(self, idx, table, default):
        """table: {concrete index tuple: value}; value at a (possibly symbolic) index, else default."""
        from .sym import mk_ite, mk_and, mk_eq
        out = default
        for key, v in table.items():
            c = mk_and(*[mk_eq(i, k) for i, k in zip(idx, key)])
            out = mk_ite(c, v, out) if not isinstance(c, bool) else (v if c else out)
        return out

    def func(self, ref):
        """A repo-level function/lambda given as source text is not supported; use objects."""
        raise NotImplementedError

    def file(self, name, value):
        self.st.files[name] = value
        return name

    def ufunc(self, name):
        from .interp import SUFun
        return SUFun(name)

    # reading the state (used by invariants / post-conditions written once for both factories)
    def elem(self, arr, idx):
        return arr.elem(self.st, tuple(idx))

    def is_none(self, x):
        if isinstance(x, SOpt):
            return x.isnone
        return x is None

    def val(self, x):
        return x.val if isinstance(x, SOpt) else x

    def And(self, *xs):
        from .sym import mk_and
        return mk_and(*xs)

    def Or(self, *xs):
        from .sym import mk_or
        return mk_or(*xs)

    def Not(self, x):
        from .sym import mk_not
        return mk_not(x)

    def ite(self, c, a, b):
        from .sym import mk_ite
        return mk_ite(c, a, b)

    def eq(self, a, b):
        from .sym import mk_eq
        return mk_eq(a, b)

    def pi(self):
        from .sym import PI
        return PI

    def sqrt(self, x):
        return self.ip.sqrt(x)

    def eq_bool(self, a, b):
        from .sym import mk_eq
        return mk_eq(a, b)

    def forall(self, n, cond, name='q'):
        """forall i in range(n): cond(i)  -- generic-index form (a fresh Int constant)."""
        self._q = getattr(self, '_q', 0) + 1
        g = z3.Int('%s!%d' % (name, self._q))
        from .sym import mk_and, mk_cmp
        return self.implies(mk_and(g >= 0, mk_cmp('<', g, n)), cond(g))

    def lam(self, src, **free):
        """A Python lambda (source text) closed over the given free variables."""
        import ast
        from .interp import SFunc, Env
        node = ast.parse(src, mode='eval').body
        env = Env(module=None)
        env.vars.update(free)
        return SFunc(node, None, env, name='<lambda>')


class Opaque(object):
    """Concrete stand-in for an arbitrary user object (mutable, deep-copyable)."""

    def __init__(self, name):
        self.name = name
        self.payload = [name]

    def __repr__(self):
        return 'Opaque(%r)' % (self.name,)


class Applied(object):
    """Concrete user callable for PairTable.apply: wraps its argument."""

    def __init__(self, name):
        self.name = name

    def __call__(self, x):
        o = Opaque((self.name, getattr(x, 'name', repr(x))))
        return o


class ConcFactory(object):
    symbolic = False

    def __init__(self, values=None, seed=0, style='random'):
        self.values = values or {}
        self.rng = random.Random(seed)
        self.style = style
        self.used = {}
        self.files = {}

    def _pick_real(self, name, lo, hi, pos, nonzero):
        if name in self.values:
            return float(self.values[name])
        r = self.rng.random()
        # mixture: small grid-like values, boundary-ish values, wide values
        if r < 0.4:
            v = self.rng.choice([0.1, 0.2, 0.25, 0.5, 0.7, 1.0, 1.2, 1.5, 2.0, 3.0])
        elif r < 0.93:
            v = self.rng.uniform(-3, 3)
        else:
            v = self.rng.uniform(-50, 50)
        if pos:
            v = abs(v) or 1.0
        if lo is not None and v < lo:
            v = lo + abs(v - lo) % max((hi - lo) if hi is not None else 10.0, 1e-9)
        if hi is not None and v > hi:
            v = hi - abs(v - hi) % max((hi - lo) if lo is not None else 10.0, 1e-9)
        if nonzero and v == 0:
            v = 1.0
        return v

    def real(self, name, lo=None, hi=None, pos=False, nonzero=False):
        v = self._pick_real(name, lo, hi, pos, nonzero)
        if (lo is not None and v < lo) or (hi is not None and v > hi) or (pos and not v > 0) or (nonzero and v == 0):
            raise Reject(name)
        self.used[name] = v
        return v

    def int(self, name, lo=None, hi=None):
        if name in self.values:
            v = int(self.values[name])
        else:
            a = lo if lo is not None else -3
            b = hi if hi is not None else a + 7
            v = self.rng.randint(a, min(b, a + 7))
            # size coincidences: lengths drawn independently agree only by luck, and equal lengths are where the
            # interesting comparisons (same grid?) start
            prev = [x for x in self.used.values() if isinstance(x, int) and not isinstance(x, bool) and a <= x <= b]
            if prev and self.rng.random() < 0.5:
                v = self.rng.choice(prev)
        if (lo is not None and v < lo) or (hi is not None and v > hi):
            raise Reject(name)
        self.used[name] = v
        return v

    def bool(self, name):
        v = bool(self.values[name]) if name in self.values else self.rng.random() < 0.5
        self.used[name] = v
        return v

    def const(self, v):
        return v

    def assume(self, c):
        if not c:
            raise Reject('assume')

    def implies(self, a, b):
        return (not a) or b

    def array(self, name, shape, dtype='real', pos=False):
        if not isinstance(shape, (tuple, list)):
            shape = (shape,)
        shape = tuple(int(s) for s in shape)
        if any(s > 4096 for s in shape):
            raise Reject('array too large')
        if name in self.values:
            a = np.array(self.values[name], dtype={'real': float, 'int': int, 'bool': bool}[dtype]).reshape(shape)
        elif dtype == 'real':
            vals = [self._pick_real(None, None, None, pos, False) for _ in range(int(np.prod(shape)) if shape else 1)]
            # boundary coincidences: some elements take exactly the value of a scalar drawn earlier (a grid point that
            # coincides with sigma or a cut-off is where `>` vs `>=` slips show)
            scal = [v for v in self.used.values() if isinstance(v, float) and (not pos or v > 0)]
            if scal:
                for i in range(len(vals)):
                    if self.rng.random() < 0.15:
                        vals[i] = self.rng.choice(scal)
            a = np.array(vals, dtype=float).reshape(shape)
            # array coincidences: an earlier array of the same shape is sometimes reproduced exactly, exactly except in
            # its interior, or exactly except at one end (a table given on "the same grid" is where comparison slips show)
            same = [np.array(v, dtype=float) for v in self.used.values()
                    if isinstance(v, list) and v and np.shape(v) == tuple(shape) and np.array(v).dtype.kind == 'f']
            u = self.rng.random()
            if same and a.ndim == 1 and u < 0.30:
                b = np.array(self.rng.choice(same)) if len(same) > 1 else same[0].copy()
                b = np.array(b, dtype=float)
                if u < 0.10 or a.size < 3:
                    a = b                                    # the same values (a fresh object)
                elif u < 0.22:
                    j = self.rng.randrange(1, a.size - 1)    # equal except at one interior point
                    b[j] = a[j]
                    a = b
                else:
                    j = self.rng.choice([0, a.size - 1])     # equal except at one end
                    b[j] = a[j]
                    a = b
        elif dtype == 'int':
            a = np.array([self.rng.randint(-5, 5) for _ in range(int(np.prod(shape)))], dtype=int).reshape(shape)
        else:
            a = np.array([self.rng.random() < 0.5 for _ in range(int(np.prod(shape)))], dtype=bool).reshape(shape)
        self.used[name] = a.tolist()
        return a

    def array_of(self, shape, fn, dtype='real'):
        if not isinstance(shape, (tuple, list)):
            shape = (shape,)
        shape = tuple(int(s) for s in shape)
        out = np.empty(shape, dtype={'real': float, 'int': int, 'bool': bool}[dtype])
        for idx in np.ndindex(*shape):
            out[idx] = fn(*idx)
        return out

    def view(self, arr, key):
        return arr[key]

    def scale_inplace(self, arr, c):
        arr *= c
        return arr

    def reshape(self, arr, shape):
        return arr.reshape(shape)

    def min(self, a, b):
        return min(a, b)

    def max(self, a, b):
        return max(a, b)

    def cls(self, ref):
        mod, name = ref.split(':')
        return getattr(importlib.import_module(mod), name)

    def obj(self, ref, **fields):
        c = self.cls(ref)
        o = c.__new__(c)
        o.__dict__.update(fields)
        return o

    def construct(self, ref, *args, **kwargs):
        import warnings
        with warnings.catch_warnings():
            warnings.simplefilter('ignore')
            return self.cls(ref)(*args, **kwargs)

    def make(self, ref, args=(), kwargs=None, **fields):
        o = self.construct(ref, *args, **(kwargs or {}))
        o.__dict__.update(fields)
        return o

    def setattr(self, obj, name, value):
        setattr(obj, name, value)

    def getattr(self, obj, name):
        return getattr(obj, name)

    def call(self, obj, method, *args, **kwargs):
        import warnings
        with warnings.catch_warnings():
            warnings.simplefilter('ignore')
            return getattr(obj, method)(*args, **kwargs)

    def enum(self, ref, member):
        return getattr(self.cls(ref), member)

    def enum_sym(self, name, ref, members=None):
        c = self.cls(ref)
        ms = [m for m in c if members is None or m.name in members]
        if name in self.values:
            v = [m for m in ms if m.value == int(self.values[name])]
            if not v:
                raise Reject(name)
            m = v[0]
        else:
            m = self.rng.choice(ms)
        self.used[name] = m.value
        return m

    def opt(self, name, val):
        key = name + '?none'
        isnone = bool(self.values[key]) if key in self.values else self.rng.random() < 0.4
        self.used[key] = isnone
        return None if isnone else val

    def ref(self, name):
        return Opaque(name)

    def opt_derived(self, isnone, val):
        return None if isnone else val

    def select(self, idx, table, default):
        return table.get(tuple(int(i) for i in idx), default)

    def ufunc(self, name):
        return Applied(name)

    def elem(self, arr, idx):
        return arr[tuple(idx)]

    def is_none(self, x):
        return x is None

    def val(self, x):
        return x

    def And(self, *xs):
        return all(xs)

    def Or(self, *xs):
        return any(xs)

    def Not(self, x):
        return not x

    def ite(self, c, a, b):
        return a if c else b

    def eq(self, a, b):
        return abs(a - b) <= 1e-9 * max(1.0, abs(a), abs(b))

    def pi(self):
        import math
        return math.pi

    def sqrt(self, x):
        import math
        return math.sqrt(x)

    def eq_bool(self, a, b):
        return bool(a) == bool(b)

    def forall(self, n, cond, name='q'):
        return all(cond(i) for i in range(int(n)))

    def file(self, name, value):
        import os
        import tempfile
        d = os.path.join(tempfile.gettempdir(), 'pyvc_files_%d' % os.getpid())
        os.makedirs(d, exist_ok=True)
        path = os.path.join(d, name)
        v = np.asarray(value)
        if v.ndim == 0:
            open(path, 'w').write('%r\n' % float(v))
        else:
            np.savetxt(path, v, fmt='%.17g')
        self.files[name] = path
        return path

    def lam(self, src, **free):
        return eval(src, dict(free, np=np))


class PrefixFactory(object):
    """View of a factory that renames every symbol it creates (used to build a second, independent pre-state)."""

    def __init__(self, f, prefix):
        self._f = f
        self._p = prefix

    def __getattr__(self, name):
        return getattr(self._f, name)

    def real(self, name, *a, **k):
        return self._f.real(self._p + name, *a, **k)

    def int(self, name, *a, **k):
        return self._f.int(self._p + name, *a, **k)

    def bool(self, name):
        return self._f.bool(self._p + name)

    def array(self, name, *a, **k):
        return self._f.array(self._p + name, *a, **k)

    def opt(self, name, val):
        return self._f.opt(self._p + name, val)

    def scale_inplace(self, *a, **k):
        return self._f.scale_inplace(*a, **k)

    def enum_sym(self, name, *a, **k):
        return self._f.enum_sym(self._p + name, *a, **k)

    def ref(self, name):
        return self._f.ref(self._p + name)

    def file(self, name, value):
        return self._f.file(self._p.replace('!', '_') + name, value)


def history_builder(build, method, mutable, self_key='self'):
    """Pre-state family 'the same object after an earlier call with other inputs and re-assignment of its public
    attributes': catches results that depend on the object's history (stale caches, memoised masks)."""
    def hbuild(f):
        a1 = build(PrefixFactory(f, 'h!'))
        obj = a1[self_key]
        f.call(obj, method, **dict((k, v) for k, v in a1.items() if k != self_key and not k.startswith('_')))
        a2 = build(f)
        for attr in mutable:
            f.setattr(obj, attr, f.getattr(a2[self_key], attr))
        out = dict(a2)
        out[self_key] = obj
        return out
    return hbuild


def history_inplace_builder(build, method, mutable, self_key='self'):
    """Pre-state family 'the same object was evaluated before and the arrays it holds in its public attributes were
    then modified *in place*' (U *= 0.5, U[mask] = ...): catches caches validated by object identity."""
    def ibuild(f):
        a = build(f)
        obj = a[self_key]
        f.call(obj, method, **dict((k, v) for k, v in a.items() if k != self_key and not k.startswith('_')))
        for attr in mutable:
            v = f.getattr(obj, attr)
            if getattr(v, 'val', None) is not None and hasattr(v, 'isnone'):
                continue                      # optional attribute: the re-assignment family covers it
            if hasattr(v, 'shape') and not isinstance(v, (int, float)):
                f.scale_inplace(v, f.real('hi!c_%s' % attr))
        return a
    return ibuild


def other_instance_builder(build, method, self_key='self'):
    """Pre-state family 'another instance of the class, with other parameters, was used earlier in this process':
    catches state shared between instances (class-level caches, module-level registries)."""
    def obuild(f):
        a1 = build(PrefixFactory(f, 'o!'))
        f.call(a1[self_key], method, **dict((k, v) for k, v in a1.items() if k != self_key and not k.startswith('_')))
        return build(f)
    return obuild
