"""Quantity algebra for pint (DESIGN C17).  pint itself -- its parser and its registry -- is trusted; the facts about
the unit names the code uses are read from the *installed* registry on every run and enter the VCs as assumed
equalities.  A quantity is (magnitude, unit) with unit = (scale to SI-coherent base units, dimension vector, offset).

    value_in_SI = magnitude * scale + offset          (offset only for degC-like units, never after * or /)

Symbolic magnitudes are z3 reals or pointwise arrays; scales are exact rationals times symbolic user constants.
"""
import ast
import re
from fractions import Fraction
import z3
from .sym import (Unsupported, SymRaise, is_sym, is_num, to_real, mk_mul, mk_div, mk_add, mk_sub, mk_eq, mk_and, SStr)
from .arr import SArr

DIMS = ('[length]', '[mass]', '[time]', '[temperature]', '[substance]', '[current]', '[luminosity]')
_NATIVE = {}


def native_registry():
    if 'reg' not in _NATIVE:
        import pint
        _NATIVE['reg'] = pint.UnitRegistry()
    return _NATIVE['reg']


class Unit(object):
    __slots__ = ('scale', 'dims', 'offset', 'name')

    def __init__(self, scale, dims, offset=0, name=''):
        self.scale = scale
        self.dims = tuple(dims)
        self.offset = offset
        self.name = name

    def dimensionless(self):
        return all(d == 0 for d in self.dims)


ONE = Unit(Fraction(1), (Fraction(0),) * len(DIMS), 0, 'dimensionless')


def _dims_of(q):
    d = dict(q.dimensionality)
    return tuple(Fraction(d.get(k, 0)).limit_denominator(1000) for k in DIMS)


def lookup_unit(reg_defs, text):
    """Unit for a unit-expression string: user definitions of this registry first, otherwise the installed pint."""
    text = text.strip()
    if text in reg_defs:
        return reg_defs[text]
    key = ('u', text)
    if key not in _NATIVE:
        import pint
        ur = native_registry()
        try:
            q = ur.Quantity(1, text)
        except pint.errors.UndefinedUnitError:
            _NATIVE[key] = 'undefined'
        except Exception as e:          # noqa
            raise Unsupported('pint cannot parse unit %r: %s' % (text, e))
        else:
            try:
                b = q.to_base_units()
                off = Fraction(0)
                if text in ('degC', 'celsius', 'degree_Celsius'):
                    _NATIVE[key] = Unit(Fraction(1), _dims_of(b), Fraction('273.15'), text)
                elif abs(float(b.magnitude) - 3.141592653589793) < 1e-14 and all(d == 0 for d in _dims_of(b)):
                    from .sym import PI
                    _NATIVE[key] = Unit(PI, _dims_of(b), off, text)      # the registry's pi is the mathematical constant
                else:
                    _NATIVE[key] = Unit(Fraction('%.15g' % float(b.magnitude)), _dims_of(b), off, text)   # A1: the registry's floats are read to 15 significant digits
            except Exception as e:      # noqa
                raise Unsupported('pint cannot reduce unit %r: %s' % (text, e))
    u = _NATIVE[key]
    if u == 'undefined':
        raise SymRaise('UndefinedUnitError', text)
    return u


class Fmt(SStr):
    """Result of 'literal {} {}'.format(a, b): remembered so that UnitRegistry.define can read it.  `rendered` is the
    formatted text with every non-string argument replaced by a marker \x00<n>\x00 (values[n] is the argument); None
    when a field carries a format spec / conversion on a non-string (the digits written are then not the value)."""

    def __init__(self, template, args, kwargs=None):
        import string
        self.template = template
        self.args = list(args)
        self.values = []
        out, auto = [], 0
        try:
            for lit, field, spec, conv in string.Formatter().parse(template):
                out.append(lit)
                if field is None:
                    continue
                if field == '':
                    key, auto = auto, auto + 1
                elif field.isdigit():
                    key = int(field)
                else:
                    key = field
                v = self.args[key] if isinstance(key, int) else (kwargs or {})[key]
                if isinstance(v, Fmt) and v.rendered is not None and not spec and not conv:
                    base = len(self.values)
                    self.values.extend(v.values)
                    out.append(re.sub('\x00(\\d+)\x00', lambda m: '\x00%d\x00' % (int(m.group(1)) + base), v.rendered))
                elif isinstance(v, str) and not spec and conv in (None, 's'):
                    out.append(v)
                elif isinstance(v, bool) or v is None or isinstance(v, SStr) or spec or conv:
                    raise ValueError('not a plain value')
                else:
                    out.append('\x00%d\x00' % len(self.values))
                    self.values.append(v)
            self.rendered = ''.join(out)
        except (ValueError, IndexError, KeyError, TypeError):
            self.rendered = None


def install(ip, M, I):
    SQty, SReg = I.SQty, I.SReg

    def reg(name):
        def deco(f):
            M[name] = f
            return f
        return deco

    @reg('pint.UnitRegistry')
    def _registry(ip, args, kw):
        ip.st.n_registries = getattr(ip.st, 'n_registries', 0) + 1
        r = SReg()
        r.ident = ip.st.n_registries
        return r

    @reg('str.format')
    def _format(ip, args, kw):
        tpl = args[0]
        if isinstance(tpl, str):
            f = Fmt(tpl, args[1:], kw)
            if f.rendered is not None and not f.values:
                return f.rendered          # every argument was a concrete string: an ordinary string
            return f
        return SStr()


def reg_getattr(ip, reg, name, I):
    if name == 'define':
        return I.SBuiltin('pintreg.define', bound=reg)
    if name == 'Quantity':
        return I.SBuiltin('pintreg.Quantity', bound=reg)
    raise Unsupported('UnitRegistry.%s' % name)


def reg_define(ip, reg, spec, I):
    if isinstance(spec, str):
        spec = Fmt(spec.replace('{', '{{').replace('}', '}}'), [])
    if not isinstance(spec, Fmt) or spec.rendered is None:
        raise Unsupported('UnitRegistry.define of a string the executor cannot read')
    m = re.match('^\\s*(\\w+)\\s*=\\s*(\x00\\d+\x00|[-+0-9.eE]+)\\s+([^=\x00]+?)\\s*=\\s*(\\w+)\\s*$', spec.rendered)
    if not m:
        raise Unsupported('UnitRegistry.define(%r)' % spec.template)
    if m.group(2).startswith('\x00'):
        val = spec.values[int(m.group(2).strip('\x00'))]
    else:
        val = Fraction(m.group(2))
    unit_text = m.group(3)
    base = lookup_unit(reg.defs, unit_text)
    if base.offset != 0:
        raise Unsupported('offset unit in a definition')
    u = Unit(mk_mul(to_real(val) if is_sym(val) else val, base.scale), base.dims, 0, m.group(1))
    reg.defs[m.group(1)] = u
    reg.defs[m.group(4)] = u
    return None


def reg_quantity(ip, reg, value, unit_text, I):
    if isinstance(unit_text, SStr) or not isinstance(unit_text, str):
        raise Unsupported('symbolic unit string')
    u = lookup_unit(reg.defs, unit_text)
    q = I.SQty(value, u.dims, u.scale, u.offset)
    q.reg = reg
    return q


def reg_call(ip, reg, args):
    from . import interp as I
    (text,) = args
    return reg_quantity(ip, reg, 1, text, I)


def _as_q(ip, x, I, like):
    if isinstance(x, I.SQty):
        return x
    q = I.SQty(x, ONE.dims, ONE.scale, 0)
    q.reg = like.reg
    return q


def _mag_op(ip, fn, a, b):
    from . import interp as I
    if isinstance(a, SArr) or isinstance(b, SArr):
        return I.run_to_completion(ip.elementwise(fn, [a, b], 'real'))
    return fn(a, b)


def qty_binop(ip, op, a, b):
    from . import interp as I
    like = a if isinstance(a, I.SQty) else b
    qa, qb = _as_q(ip, a, I, like), _as_q(ip, b, I, like)
    if qa.reg is not qb.reg and isinstance(a, I.SQty) and isinstance(b, I.SQty):
        raise SymRaise('ValueError', 'Cannot operate with Quantity and Quantity of different registries.')
    if op is ast.Mult or op is ast.Div:
        if (qa.offset != 0 and not all(d == 0 for d in qb.dims)) or qb.offset != 0:
            raise SymRaise('OffsetUnitCalculusError')
        if op is ast.Mult:
            r = I.SQty(_mag_op(ip, mk_mul, qa.mag, qb.mag), tuple(x + y for x, y in zip(qa.dims, qb.dims)), mk_mul(qa.scale, qb.scale), 0)
        else:
            r = I.SQty(_mag_op(ip, mk_div, qa.mag, qb.mag), tuple(x - y for x, y in zip(qa.dims, qb.dims)), mk_div(qa.scale, qb.scale), 0)
        r.reg = like.reg
        return r
    if op is ast.Pow:
        if isinstance(b, I.SQty):
            raise Unsupported('quantity exponent')
        e = b
        if is_sym(e) or not float(e).is_integer():
            raise Unsupported('non-integer power of a quantity')
        n = int(e)
        r = I.SQty(ip.power(qa.mag, n) if not isinstance(qa.mag, SArr) else I.run_to_completion(ip.elementwise(lambda x: ip.power(x, n), [qa.mag], 'real')),
                   tuple(x * n for x in qa.dims), ip.power(qa.scale, n), 0)
        r.reg = like.reg
        return r
    if op is ast.Add or op is ast.Sub:
        if qa.dims != qb.dims:
            raise SymRaise('DimensionalityError')
        if qa.offset != 0 or qb.offset != 0:
            raise Unsupported('addition of offset quantities')
        f = mk_add if op is ast.Add else mk_sub
        r = I.SQty(_mag_op(ip, f, qa.mag, _mag_op(ip, mk_mul, qb.mag, mk_div(qb.scale, qa.scale))), qa.dims, qa.scale, 0)
        r.reg = like.reg
        return r
    raise Unsupported('quantity operator %s' % op.__name__)


def qty_neg(ip, op, a):
    from . import interp as I
    if op is ast.USub:
        m = I.run_to_completion(ip.unop(ast.USub, a.mag)) if isinstance(a.mag, SArr) else -a.mag
        r = I.SQty(m, a.dims, a.scale, a.offset)
        r.reg = a.reg
        return r
    raise Unsupported('unary op on a quantity')


def qty_to(ip, q, text):
    from . import interp as I
    if not isinstance(text, str):
        raise Unsupported('symbolic unit string')
    u = lookup_unit(q.reg.defs, text)
    if tuple(u.dims) != tuple(q.dims):
        raise SymRaise('DimensionalityError')
    # value_SI = mag*scale + offset  ->  new mag = (value_SI - u.offset) / u.scale
    if q.offset == 0 and u.offset == 0:
        fac = mk_div(q.scale, u.scale)
        m = _mag_op(ip, mk_mul, q.mag, fac)
    else:
        def conv(x, _k):
            return mk_div(mk_sub(mk_add(mk_mul(x, q.scale), q.offset), u.offset), u.scale)
        m = _mag_op(ip, conv, q.mag, 0)
    r = I.SQty(m, u.dims, u.scale, u.offset)
    r.reg = q.reg
    return r


def qty_getattr(ip, obj, name):
    from . import interp as I
    if isinstance(obj, I.SReg):
        return reg_getattr(ip, obj, name, I)
    if name == 'to':
        return I.SBuiltin('pintqty.to', bound=obj)
    if name == 'magnitude' or name == 'm':
        return obj.mag
    if name == 'to_base_units':
        return I.SBuiltin('pintqty.to_base_units', bound=obj)
    raise Unsupported('Quantity.%s' % name)


def qty_compare(cmp, name, a, b):
    """Two quantities are equal iff same dimension, same unit (scale, offset) and same magnitude."""
    from .sym import mk_eq
    if tuple(a.dims) != tuple(b.dims):
        cmp.mismatch(name, 'dimension %s vs %s' % (a.dims, b.dims))
        return
    cmp.goal(name + '.unit-scale', mk_eq(to_real(a.scale) if is_sym(a.scale) else a.scale, to_real(b.scale) if is_sym(b.scale) else b.scale))
    if a.offset != b.offset:
        cmp.mismatch(name, 'unit offset %s vs %s' % (a.offset, b.offset))
        return
    cmp.val(name + '.magnitude', a.mag, b.mag)


def install_builtins(M, I):
    def _define(ip, args, kw):
        return reg_define(ip, args[0], args[1], I)

    def _quantity(ip, args, kw):
        return reg_quantity(ip, args[0], args[1], args[2], I)

    def _to(ip, args, kw):
        return qty_to(ip, args[0], args[1])

    def _to_base(ip, args, kw):
        q = args[0]
        r = I.SQty(_mag_op(ip, lambda x, _k: mk_add(mk_mul(x, q.scale), q.offset), q.mag, 0), q.dims, Fraction(1), 0)
        r.reg = q.reg
        return r
    M['pintreg.define'] = _define
    M['pintreg.Quantity'] = _quantity
    M['pintqty.to'] = _to
    M['pintqty.to_base_units'] = _to_base
