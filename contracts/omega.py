"""Contracts for pyPRISM/omega/*.py  (properties C11, C12).

Closed-form models are verified against the closed form in terms of E(k) for every chain length N
(symbolic integer); that the closed form equals the defining pair sum (1/N) sum_ij E^|i-j| is the
inductive lemma L-closed in contracts/lemmas_c11.py.
"""
from pyvc.api import *

O = 'pyPRISM.omega.'


def closed_form(E, N):
    """(1/N) sum_{i,j=1..N} E^|i-j| in closed form (E != 1)."""
    return (1 - E * E - 2 * E / N + 2 * ipow(E, N + 1) / N) / ((1 - E) * (1 - E))


# --------------------------------------------------------------------------- trivial models

@contract('pyPRISM/omega/SingleSite.py::SingleSite.calculate', props=['C11'])
def SingleSite_calculate(self, k):
    self.value = pointwise(k.shape, lambda i: 1.0)
    return self.value


@contract('pyPRISM/omega/NoIntra.py::NoIntra.calculate', props=['C11'])
def NoIntra_calculate(self, k):
    self.value = pointwise(k.shape, lambda i: 0.0)
    return self.value


def _plain_cases(ref):
    def gen():
        def build(f):
            return dict(self=f.obj(ref), k=f.array('k', (f.int('n', lo=0),)))
        yield 'any k grid', build, {'history': {'method': 'calculate', 'other': True}}

        def build_h(f):
            # an earlier result (of this or of another instance, on a grid of any length) was scaled in place by its
            # caller, e.g. rho*omega: the next evaluation still returns the model's constant in fresh storage
            first = f.obj(ref)
            r = f.call(first, 'calculate', f.array('h_k', (f.int('h_n', lo=0),)))
            f.scale_inplace(r, f.real('h_c'))
            return dict(self=f.obj(ref), k=f.array('k', (f.int('n', lo=0),)), _earlier=r)
        yield 'any k grid, after the result of an earlier evaluation was scaled in place', build_h
    return gen


cases(SingleSite_calculate)(_plain_cases(O + 'SingleSite:SingleSite'))
cases(NoIntra_calculate)(_plain_cases(O + 'NoIntra:NoIntra'))


# --------------------------------------------------------------------------- Gaussian / FJC closed forms

def _away_from_cancellation(f, k, scale):
    """Concrete samples only (the symbolic obligations cover every real k): the native cross-check compares two
    floating-point evaluations of the closed form and is meaningless where the closed form has lost its digits -- the
    regime k*scale <= 0.05 is the recorded known finding of C11 (decided by the bounded floating-point stand-in)."""
    if not f.symbolic:
        import numpy as _np
        f.assume(bool(_np.all(_np.abs(_np.asarray(k, dtype=float)) * float(scale) > 0.05)))


@contract('pyPRISM/omega/Gaussian.py::Gaussian.calculate', props=['C11'])
def Gaussian_calculate(self, k):
    N = self.length
    sigma = self.sigma
    self.value = pointwise(k.shape, lambda i: closed_form(exp(-k[i] * k[i] * sigma * sigma / 6.0), N))
    return self.value


@cases(Gaussian_calculate)
def _gauss_cases():
    def build(f):
        sigma = f.real('sigma', pos=True)
        self = f.construct(O + 'Gaussian:Gaussian', sigma=sigma, length=f.int('N', lo=1))
        k = f.array('k', (f.int('n', lo=0),))
        _away_from_cancellation(f, k, sigma)
        return dict(self=self, k=k)
    yield 'any N, sigma, k grid', build, {'history': {'method': 'calculate', 'mutable': ('sigma', 'length'), 'other': True}}


@contract('pyPRISM/omega/FreelyJointedChain.py::FreelyJointedChain.calculate', props=['C11'])
def FreelyJointedChain_calculate(self, k):
    N = self.N
    l = self.l
    self.value = pointwise(k.shape, lambda i: closed_form(sin(k[i] * l) / (k[i] * l), N))
    return self.value


@cases(FreelyJointedChain_calculate)
def _fjc_cases():
    def build(f):
        l = f.real('l', pos=True)
        self = f.construct(O + 'FreelyJointedChain:FreelyJointedChain', length=f.int('N', lo=1), l=l)
        k = f.array('k', (f.int('n', lo=0),))
        _away_from_cancellation(f, k, l)
        return dict(self=self, k=k)
    yield 'any N, l, k grid', build, {'history': {'method': 'calculate', 'mutable': ('N', 'l'), 'other': True}}


# --------------------------------------------------------------------------- Gaussian ring (sum over separations)

def ring_weight(kk, ss, N, t):
    return exp(-ss * kk * t * (N - t) / (6.0 * N))


@contract('pyPRISM/omega/GaussianRing.py::GaussianRing.calculate', props=['C11'])
def GaussianRing_calculate(self, k):
    # defining sum over the N separations t = 0..N-1 of one row of the ring's pair matrix (all rows are equal by the
    # symmetry w_t = w_{N-t}, lemma omega-sum-rules); an uninterpreted finite sum for symbolic N
    N = self.length
    ss = self.sigma * self.sigma
    self.value = array_sum(0, N, lambda t: pointwise(k.shape, lambda m: ring_weight(k[m] * k[m], ss, N, t)))
    return self.value


@cases(GaussianRing_calculate)
def _ring_cases():
    def build_sym(f):
        self = f.construct(O + 'GaussianRing:GaussianRing', sigma=f.real('sigma', pos=True), length=f.int('N', lo=1))
        return dict(self=self, k=f.array('k', (f.int('n', lo=0),)))
    yield 'any N >= 1 (accumulation loop summarised as a finite sum: unbounded in N)', build_sym, {'history': {'method': 'calculate', 'mutable': ('sigma', 'length'), 'other': True}}
    for N in (1, 2, 3, 4, 5, 8):
        def build(f, N=N):
            self = f.construct(O + 'GaussianRing:GaussianRing', sigma=f.real('sigma', pos=True), length=N)
            return dict(self=self, k=f.array('k', (f.int('n', lo=0),)))
        yield 'N=%d (loop unrolled)' % N, build


# --------------------------------------------------------------------------- DiscreteKoyama

def _mk_koyama(f, N):
    """A DiscreteKoyama chain with arbitrary (symbolic) stored parameters.  Created by the real constructor (valid
    numbers in its linearised branch) and then overwritten, so that it carries every attribute a real object has."""
    return f.make(O + 'DiscreteKoyama:DiscreteKoyama', kwargs=dict(sigma=1.0, l=1.0, length=N, lp=1.334),
                  sigma=f.real('sigma', pos=True), l=f.real('l', pos=True), lp=f.real('lp', pos=True), length=N,
                  cos0=f.real('cos0'), cos1=f.real('cos1'), cos2=f.real('cos2'), epsilon=f.real('epsilon'), value=None)


@contract('pyPRISM/omega/DiscreteKoyama.py::DiscreteKoyama.kernel_base', props=['C11'],
          notes='TRUSTED FORMULA: the moments <r^2>, <r^4> of Honnell, Curro, Schweizer (1990), eqs 17-24, as transcribed in the '
                'pinned source.  No independent statement of these equations is available here; this contract pins the shipped '
                'transcription (regressions, hidden state), its agreement with the paper is assumed.')
def DiscreteKoyama_kernel_base(self, n):
    l = self.l
    q = -self.cos1
    p = (3 * self.cos2 - 1) / 2
    a = (1 + q) / (1 - q)
    D = n * n * a * a
    D = D - n * (1 + (2 * q / ipow(1 - q, 3)) * (6 + 5 * q + 3 * q * q) - 4 * p / (1 - p) * a * a)
    D = D + 2 * q / ipow(1 - q, 4) * (4 + 11 * q + 12 * q * q)
    D = D - 4 * p / (1 - p) * (1 + 8 * q / ipow(1 - q, 3) + p / (1 - p) * a * a)
    D = D - ipow(q, n) * 8 * q / ipow(1 - q, 3) * (n * (1 + 3 * q))
    D = D - ipow(q, n) * 8 * q / ipow(1 - q, 3) * ((1 + 2 * q + 3 * q * q) / (1 - q))
    D = D - ipow(q, n) * 8 * q / ipow(1 - q, 3) * (-2 * p / ipow(q - p, 2) * (n * (1 - q) * (q - p) + 2 * q * q - q * p - p))
    D = D - 6 * ipow(q, 2 * n + 2) / ipow(1 - q, 4)
    D = D + ipow(p, n) * (4 / (1 - p) * (1 + 8 * q / ipow(1 - q, 3) - a * a * (1 - p / (1 - p))))
    D = D - ipow(p, n) * (16 * q * q / ipow(1 - q, 3) * (1 / ipow(q - p, 2)) * (q + q * q - 2 * p))
    D = D * 2 / 3
    c1 = self.cos1
    r2 = n * l * l * ((1 - c1) / (1 + c1) + 2 * c1 / n * (1 - ipow(-c1, n)) / ipow(1 + c1, 2))
    r4 = r2 * r2 + l * l * l * l * D
    return (r2, r4)


@cases(DiscreteKoyama_kernel_base)
def _kb_cases():
    def build(f):
        return dict(self=_mk_koyama(f, 5), n=f.int('sep', lo=1))
    yield 'any separation and stored parameters', build, {'history': {'method': 'kernel_base', 'other': True}}


@contract('pyPRISM/omega/DiscreteKoyama.py::DiscreteKoyama.koyama_kernel_fourier', props=['C11'])
def DiscreteKoyama_kernel(self, k, n):
    # the documented definition: sin(B k)/(B k) exp(-A^2 k^2),  A^2 = <r^2>(1-C)/6,  B^2 = C <r^2>,  C^2 = (5 - 3<r^4>/<r^2>^2)/2
    r2, r4 = self.kernel_base(n)
    require(0.5 * (5 - 3 * r4 / (r2 * r2)) >= 0)      # valid chain parameters (the code raises ValueError('Bad chain parameters') otherwise)
    C = sqrt(0.5 * (5 - 3 * r4 / (r2 * r2)))
    require(C * r2 >= 0)
    B = sqrt(C * r2)
    Asq = r2 * (1 - C) / 6
    return pointwise(k.shape, lambda m: sin(B * k[m]) / (B * k[m]) * exp(-Asq * k[m] * k[m]))


@cases(DiscreteKoyama_kernel)
def _kf_cases():
    def build(f):
        return dict(self=_mk_koyama(f, 5), k=f.array('k', (f.int('nk', lo=0),), pos=True), n=f.int('sep', lo=1))
    yield 'any separation, k grid and stored parameters', build, {'history': {'method': 'koyama_kernel_fourier', 'other': True}}


@contract('pyPRISM/omega/DiscreteKoyama.py::DiscreteKoyama.calculate', props=['C11'])
def DiscreteKoyama_calculate(self, k):
    # the defining pair sum over the N sites, (1/N) sum_{i,j} w_|i-j|(k): N self terms (w_0 = 1) plus twice the pairs i < j
    N = self.length
    S = array_sum(1, N, lambda i: array_sum(i + 1, N + 1, lambda j: self.koyama_kernel_fourier(k=k, n=j - i)))
    self.value = pointwise(k.shape, lambda m: 1.0 + (2.0 / N) * S[m])
    return self.value


@cases(DiscreteKoyama_calculate)
def _dk_cases():
    def build_sym(f):
        N = f.int('N', lo=2)
        o = _mk_koyama(f, 5)
        f.setattr(o, 'length', N)
        return dict(self=o, k=f.array('k', (f.int('n', lo=0),), pos=True))
    yield 'any N >= 2 (nested accumulation loops summarised as finite sums: unbounded in N)', build_sym
    for N in (2, 3, 4, 5, 6):
        def build(f, N=N):
            return dict(self=_mk_koyama(f, N), k=f.array('k', (f.int('n', lo=0),), pos=True))
        yield 'N=%d (loops unrolled)' % N, build, ({'history': {'method': 'calculate', 'other': True}} if N == 3 else {})


from scipy.optimize import root      # native meaning for the replay; symbolically the assumed contract in pyvc/models.py


@contract('pyPRISM/omega/DiscreteKoyama.py::DiscreteKoyama.cos_avg', props=['C11'])
def DiscreteKoyama_cos_avg(self, epsilon):
    # first moment of the bond-angle distribution exp(e cos(theta)) restricted to cos(theta) in [-1, -cos0]
    return 1 / epsilon - (exp(epsilon) + self.cos0 * exp(-epsilon * self.cos0)) / (exp(epsilon) - exp(-epsilon * self.cos0))


@contract('pyPRISM/omega/DiscreteKoyama.py::DiscreteKoyama.cos_sq_avg', props=['C11'])
def DiscreteKoyama_cos_sq_avg(self, epsilon):
    avg = 1 / epsilon - (exp(epsilon) + self.cos0 * exp(-epsilon * self.cos0)) / (exp(epsilon) - exp(-epsilon * self.cos0))
    return (2 / epsilon) * avg + (exp(epsilon) - self.cos0 * self.cos0 * exp(-epsilon * self.cos0)) / (exp(epsilon) - exp(-epsilon * self.cos0))


def _moment_cases():
    def build(f):
        return dict(self=_mk_koyama(f, 4), epsilon=f.real('e'))
    yield 'any epsilon and stored cos0', build


cases(DiscreteKoyama_cos_avg)(_moment_cases)
cases(DiscreteKoyama_cos_sq_avg)(_moment_cases)


@contract('pyPRISM/omega/DiscreteKoyama.py::DiscreteKoyama.__init__', props=['C11'])
def DiscreteKoyama_init(self, sigma, l, length, lp):
    self.sigma = sigma
    self.length = int(length)
    self.l = l
    self.lp = lp
    self.cos0 = 1 - sigma * sigma / (2.0 * l * l)
    self.value = None
    if not (l > sigma / 2.0):
        raise ValueError              # neighbours two bonds apart would overlap
    self.lp_min = 4.0 * l * l * l / (4.0 * l * l - sigma * sigma)
    if lp < self.lp_min:
        raise ValueError
    self.cos1 = l / lp - 1.0
    if (lp - self.lp_min) / self.lp_min < 0.001:
        # linearisation next to the freely jointed limit
        self.epsilon = 6.0 * (self.cos0 - 1.0 - 2.0 * self.cos1) / ((1.0 + self.cos0) * (1.0 + self.cos0))
        self.cos2 = (1.0 / 3.0) * (1.0 + (self.cos0 - 1.0) * self.cos0) - (1.0 / 12.0) * ((self.cos0 - 1.0) * (1.0 + self.cos0) * (1.0 + self.cos0)) * self.epsilon
    else:
        # bending energy: the root of <cos>(e) = cos1 that scipy's root returns from the start value 0.5 (assumed
        # contract R1/R2 of root: it reports the point of its last evaluation and a success flag); no root -> rejected
        c0 = self.cos0
        c1 = self.cos1
        result = root(lambda e: (1 / e[0] - (exp(e[0]) + c0 * exp(-e[0] * c0)) / (exp(e[0]) - exp(-e[0] * c0))) - c1, 0.5)
        if result.success != True:
            raise ValueError
        eps = result.x[0]
        self.epsilon = eps
        avg = 1 / eps - (exp(eps) + c0 * exp(-eps * c0)) / (exp(eps) - exp(-eps * c0))
        self.cos2 = (2 / eps) * avg + (exp(eps) - c0 * c0 * exp(-eps * c0)) / (exp(eps) - exp(-eps * c0))


@cases(DiscreteKoyama_init)
def _dk_init_cases():
    for region in ('l<=sigma/2', 'lp<lp_min', 'lp within 0.1% of lp_min', 'lp beyond 0.1% of lp_min (bending energy from the root solve)'):
        def build(f, region=region):
            sigma = f.real('sigma', pos=True)
            l = f.real('l', pos=True)
            lp = f.real('lp', pos=True)
            if region == 'l<=sigma/2':
                f.assume(l <= sigma / 2)
            else:
                f.assume(l > sigma / 2)
                lpmin = 4 * l * l * l / (4 * l * l - sigma * sigma)
                if region == 'lp<lp_min':
                    f.assume(lp < lpmin)
                elif region.startswith('lp within'):
                    f.assume(lp >= lpmin)
                    f.assume((lp - lpmin) / lpmin < f.const(0.001))
                else:
                    f.assume((lp - lpmin) / lpmin >= f.const(0.001))
            return dict(self=f.obj(O + 'DiscreteKoyama:DiscreteKoyama'), sigma=sigma, l=l, length=f.int('N', lo=2), lp=lp)
        yield region, build


# --------------------------------------------------------------------------- tabulated omega (C12)

@contract('pyPRISM/omega/FromArray.py::FromArray.__init__', props=['C12'])
def FromArray_init(self, omega, k=None):
    self.value = fresh_copy(omega)           # later changes to the caller's array do not leak
    if k is not None:
        self.k = fresh_copy(k)
    else:
        self.k = None


@cases(FromArray_init)
def _fa_init_cases():
    for kk in ('none', 'array'):
        def build(f, kk=kk):
            n = f.int('n', lo=0)
            return dict(self=f.obj(O + 'FromArray:FromArray'), omega=f.array('omega', (n,)),
                        k=f.array('kfile', (f.int('m', lo=0),)) if kk == 'array' else None)
        yield 'k=%s' % kk, build


@contract('pyPRISM/omega/FromArray.py::FromArray.calculate', props=['C12'])
def FromArray_calculate(self, k):
    if self.value.shape[0] != k.shape[0]:
        raise AssertionError
    if self.k is not None:
        if self.k.shape[0] != k.shape[0]:
            raise AssertionError
        if not allclose(self.k, k):
            raise AssertionError
    return self.value                        # verbatim: the stored array itself, unmodified


@cases(FromArray_calculate)
def _fa_calc_cases():
    for kk in ('none', 'array'):
        def build(f, kk=kk):
            self = f.construct(O + 'FromArray:FromArray', f.array('omega', (f.int('n', lo=0),)),
                               k=f.array('kfile', (f.int('m', lo=0),)) if kk == 'array' else None)
            return dict(self=self, k=f.array('k', (f.int('nk', lo=0),)))
        yield 'stored k=%s' % kk, build


@contract('pyPRISM/omega/FromFile.py::FromFile.__init__', props=['C12'])
def FromFile_init(self, fileName):
    self.fileName = fileName


@cases(FromFile_init)
def _ff_init_cases():
    def build(f):
        return dict(self=f.obj(O + 'FromFile:FromFile'), fileName='omega.dat')
    yield 'any file name', build


@contract('pyPRISM/omega/FromFile.py::FromFile.calculate', props=['C12'])
def FromFile_calculate(self, k):
    data = loadtxt(self.fileName)
    if len(data.shape) >= 2:
        if data.shape[0] != k.shape[0]:
            raise AssertionError
        if not allclose(data[:, 0], k):
            raise AssertionError
        self.value = data[:, 1]              # second column verbatim
    else:
        self.value = data                    # one-column file: verbatim (length is checked when the table is exported)
    return self.value


@cases(FromFile_calculate)
def _ff_calc_cases():
    for layout in ('two columns', 'one column', 'single number'):
        def build(f, layout=layout):
            rows = f.int('rows', lo=2)
            if layout == 'two columns':
                content = f.array('file', (f.int('rows2', lo=1), 2))
            elif layout == 'one column':
                content = f.array('file', (rows,))
            else:
                content = f.array('file', ())
            name = f.file('omega.dat', content)
            self = f.construct(O + 'FromFile:FromFile', name)
            return dict(self=self, k=f.array('k', (f.int('nk', lo=0),)))
        yield layout, build
    def build_seq(f):
        # evaluated once on a matching grid, then again on another grid of the same length
        n = f.int('rows2', lo=1)
        content = f.array('file', (n, 2))
        name = f.file('omega.dat', content)
        self = f.construct(O + 'FromFile:FromFile', name)
        k1 = f.array_of((n,), lambda i: f.elem(content, (i, 0)))
        f.call(self, 'calculate', k1)
        return dict(self=self, k=f.array('k', (n,)))
    yield 'two columns, second evaluation on a different grid of the same length', build_seq
