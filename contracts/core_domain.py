"""Contracts for pyPRISM/core/Domain.py  (properties C07, C08; callee contracts for C01, C05, C06).

Representation invariant wf(D) (= the grid clauses of C07):
  len(r) == len(k) == N >= 1,  r_i == (i+1) dr,  k_j == (j+1) dk,  dr dk N == pi,
  DST_II_coeffs_i == 2 pi r_i dr,  DST_III_coeffs_j == k_j dk / (4 pi^2),  long_r is r viewed as (N,1,1).
All arrays are functions of (N, dr, dk), and dk of (N, dr): two domains with equal (N, dr) are equal
field by field ("indistinguishable from a freshly constructed one").
"""
from pyvc.api import *
from pyPRISM.core.Space import Space
from contracts.core_matrixarray import mk_MA, LABELS

DOM = 'pyPRISM.core.Domain:Domain'
SP = 'pyPRISM.core.Space:Space'


def mk_Domain(f, N=None, prefix=''):
    """An arbitrary well-formed Domain (wf(D) holds by construction)."""
    if N is None:
        N = f.int(prefix + 'N', lo=1)
    dr = f.real(prefix + 'dr', pos=True)
    pi = f.pi()
    dk = pi / (dr * N)
    r = f.array_of((N,), lambda i: (i + 1) * dr)
    D = f.make(DOM, kwargs=dict(length=2, dr=1), _length=N, _dr=dr, _dk=dk, r=r,
              k=f.array_of((N,), lambda j: (j + 1) * dk),
              DST_II_coeffs=f.array_of((N,), lambda i: 2 * pi * ((i + 1) * dr) * dr),
              DST_III_coeffs=f.array_of((N,), lambda j: ((j + 1) * dk) * dk / (4 * pi * pi)))
    f.setattr(D, 'long_r', f.reshape(r, (-1, 1, 1)))
    return D


def wf_domain(f, D):
    """wf(D) as a list of named conditions on the (post-)state; symbolic factory only."""
    import z3
    N = f.getattr(D, '_length')
    dr = f.getattr(D, '_dr')
    dk = f.getattr(D, '_dk')
    pi = f.pi()
    g = z3.Int('wf!g')
    inb = f.And(g >= 0, g < N)
    out = [('dr*dk*length==pi', f.eq(dr * dk * N, pi))]
    for nm in ('r', 'k', 'DST_II_coeffs', 'DST_III_coeffs'):
        a = f.getattr(D, nm)
        out.append(('len(%s)==length' % nm, f.eq(a.shape[0], N)))
    out.append(('r[i]==(i+1)*dr', f.implies(inb, f.eq(f.elem(f.getattr(D, 'r'), (g,)), (g + 1) * dr))))
    out.append(('k[j]==(j+1)*dk', f.implies(inb, f.eq(f.elem(f.getattr(D, 'k'), (g,)), (g + 1) * dk))))
    out.append(('DST_II_coeffs[i]==2*pi*r_i*dr', f.implies(inb, f.eq(f.elem(f.getattr(D, 'DST_II_coeffs'), (g,)), 2 * pi * ((g + 1) * dr) * dr))))
    out.append(('DST_III_coeffs[j]==k_j*dk/(4*pi^2)', f.implies(inb, f.eq(f.elem(f.getattr(D, 'DST_III_coeffs'), (g,)), ((g + 1) * dk) * dk / (4 * pi * pi)))))
    lr = f.getattr(D, 'long_r')
    out.append(('long_r.shape==(length,1,1)', f.And(f.eq(lr.shape[0], N), f.eq(lr.shape[1], 1), f.eq(lr.shape[2], 1))))
    out.append(('long_r[i,0,0]==r[i]', f.implies(inb, f.eq(f.elem(lr, (g, 0, 0)), (g + 1) * dr))))
    return out


def fresh_equiv(f, D, N, dr):
    """Field-by-field equality with Domain(length=N, dr=dr)."""
    pi = f.pi()
    return [('length as requested', f.eq(f.getattr(D, '_length'), N)),
            ('dr as requested', f.eq(f.getattr(D, '_dr'), dr)),
            ('dk == pi/(dr*length) (never stale)', f.eq(f.getattr(D, '_dk'), pi / (dr * N)))]


# --------------------------------------------------------------------------- grid construction

@contract('pyPRISM/core/Domain.py::Domain.build_grid', props=['C07', 'C08', 'C02'])
def Domain_build_grid(self):
    N = self._length
    dr = self._dr
    dk = self._dk
    self.r = pointwise(N, lambda i: (i + 1) * dr)
    self.k = pointwise(N, lambda j: (j + 1) * dk)
    self.DST_II_coeffs = pointwise(N, lambda i: 2 * PI * ((i + 1) * dr) * dr)
    self.DST_III_coeffs = pointwise(N, lambda j: ((j + 1) * dk) * dk / (4 * PI * PI))
    self.long_r = self.r.reshape((-1, 1, 1))


@cases(Domain_build_grid)
def _bg_cases():
    def build(f):
        N = f.int('N', lo=1)
        return dict(self=f.obj(DOM, _length=N, _dr=f.real('dr', pos=True), _dk=f.real('dk', pos=True)))
    yield 'any length and spacings', build


@contract('pyPRISM/core/Domain.py::Domain.__init__', props=['C07', 'C08', 'C02'])
def Domain_init(self, length, dr=None, dk=None):
    self._length = length
    if dr is None and dk is None:
        raise ValueError
    if dr is not None and dk is not None:
        raise ValueError
    if dr is not None:
        self._dr = dr
        self._dk = PI / (dr * length)
    else:
        self._dk = dk
        self._dr = PI / (dk * length)
    self.build_grid()


@cases(Domain_init)
def _init_cases():
    for kind in ('dr', 'dk', 'neither', 'both'):
        def build(f, kind=kind):
            N = f.int('N', lo=1)
            return dict(self=f.obj(DOM), length=N,
                        dr=f.real('dr', pos=True) if kind in ('dr', 'both') else None,
                        dk=f.real('dk', pos=True) if kind in ('dk', 'both') else None)
        post = None
        if kind in ('dr', 'dk'):
            post = lambda f, args, res: wf_domain(f, args['self'])
        yield 'given=%s' % kind, build, ({'post': post} if post else {})


@contract('pyPRISM/core/Domain.py::Domain.dr.setter', props=['C07', 'C08', 'C02'])
def Domain_set_dr(self, value):
    self._dr = value
    self._dk = PI / (value * self._length)
    self.build_grid()


@contract('pyPRISM/core/Domain.py::Domain.dk.setter', props=['C07', 'C08', 'C02'])
def Domain_set_dk(self, value):
    self._dk = value
    self._dr = PI / (value * self._length)
    self.build_grid()


@contract('pyPRISM/core/Domain.py::Domain.length.setter', props=['C07', 'C08', 'C02'])
def Domain_set_length(self, value):
    self._length = value
    self._dk = PI / (self._dr * value)        # dr is kept; the conjugate spacing follows the new length
    self.build_grid()


@cases(Domain_set_dr)
def _set_dr_cases():
    def build(f):
        return dict(self=mk_Domain(f), value=f.real('value', pos=True))
    yield 'any well-formed domain', build, {'post': lambda f, args, res: wf_domain(f, args['self']) + fresh_equiv(
        f, args['self'], f.getattr(args['self'], '_length'), args['value'])}


@cases(Domain_set_dk)
def _set_dk_cases():
    def build(f):
        return dict(self=mk_Domain(f), value=f.real('value', pos=True))
    yield 'any well-formed domain', build, {'post': lambda f, args, res: wf_domain(f, args['self']) + [
        ('dk as requested', f.eq(f.getattr(args['self'], '_dk'), args['value']))]}


@cases(Domain_set_length)
def _set_length_cases():
    def build(f):
        D = mk_Domain(f)
        return dict(self=D, value=f.int('value', lo=1), _dr0=f.getattr(D, '_dr'))
    yield 'any well-formed domain', build, {'post': lambda f, args, res: wf_domain(f, args['self']) + fresh_equiv(
        f, args['self'], args['value'], args['_dr0'])}


@contract('pyPRISM/core/Domain.py::Domain.dr.getter', props=['C07'])
def Domain_get_dr(self):
    return self._dr


@contract('pyPRISM/core/Domain.py::Domain.dk.getter', props=['C07'])
def Domain_get_dk(self):
    return self._dk


@contract('pyPRISM/core/Domain.py::Domain.length.getter', props=['C07'])
def Domain_get_length(self):
    return self._length


def _getter_cases():
    def build(f):
        return dict(self=mk_Domain(f))
    yield 'any well-formed domain', build


for _s in (Domain_get_dr, Domain_get_dk, Domain_get_length):
    cases(_s)(_getter_cases)


# --------------------------------------------------------------------------- transforms

@contract('pyPRISM/core/Domain.py::Domain.to_fourier', props=['C07', 'C08', 'C02'])
def Domain_to_fourier(self, array):
    N = self._length
    require(array.shape[0] == N)               # functions live on the domain's grid
    dr = self._dr
    dk = self._dk
    x = pointwise(N, lambda i: (2 * PI * ((i + 1) * dr) * dr) * array[i])
    y = dst2(x)                                 # assumed contract: scipy DST-II
    return pointwise(N, lambda j: y[j] / ((j + 1) * dk))


@contract('pyPRISM/core/Domain.py::Domain.to_real', props=['C07', 'C08', 'C02'])
def Domain_to_real(self, array):
    N = self._length
    require(array.shape[0] == N)
    dr = self._dr
    dk = self._dk
    x = pointwise(N, lambda j: (((j + 1) * dk) * dk / (4 * PI * PI)) * array[j])
    y = dst3(x)                                 # assumed contract: scipy DST-III
    return pointwise(N, lambda i: y[i] / ((i + 1) * dr))


def _tf_cases():
    def build(f):
        D = mk_Domain(f)
        return dict(self=D, array=f.array('a', (f.getattr(D, '_length'),)))
    yield 'array on the grid', build


cases(Domain_to_fourier)(_tf_cases)
cases(Domain_to_real)(_tf_cases)


@contract('pyPRISM/core/Domain.py::Domain.MatrixArray_to_fourier', props=['C07', 'C06'])
def Domain_MatrixArray_to_fourier(self, marray):
    if marray.space == Space.Fourier:
        raise ValueError                          # refuses an array already in the target space
    require(marray.data.shape[0] == self._length)
    n = marray.rank
    cols = [[None for j in range(n)] for i in range(n)]
    for i in range(n):
        for j in range(i, n):
            cols[i][j] = self.to_fourier(marray.data[:, i, j])       # every pair function a<=b, from the *old* data
    N = self._length
    update(marray.data, lambda l, a, b: sum(
        [(cols[i][j][l] if ((a == i and b == j) or (a == j and b == i)) else 0.0) for i in range(n) for j in range(i, n)]))
    marray.space = Space.Fourier


@contract('pyPRISM/core/Domain.py::Domain.MatrixArray_to_real', props=['C07', 'C06'])
def Domain_MatrixArray_to_real(self, marray):
    if marray.space == Space.Real:
        raise ValueError
    require(marray.data.shape[0] == self._length)
    n = marray.rank
    cols = [[None for j in range(n)] for i in range(n)]
    for i in range(n):
        for j in range(i, n):
            cols[i][j] = self.to_real(marray.data[:, i, j])
    update(marray.data, lambda l, a, b: sum(
        [(cols[i][j][l] if ((a == i and b == j) or (a == j and b == i)) else 0.0) for i in range(n) for j in range(i, n)]))
    marray.space = Space.Real


def _ma_tf_cases():
    for n in (1, 2, 3, 4):
        for sym in ('symmetric', 'any'):
            def build(f, n=n, sym=sym):
                D = mk_Domain(f)
                N = f.getattr(D, '_length')
                M = mk_MA(f, 'M', N, n)
                if sym == 'symmetric':
                    raw = f.getattr(M, 'data')
                    f.setattr(M, 'data', f.array_of((N, n, n), lambda l, a, b: f.elem(raw, (l, f.min(a, b), f.max(a, b)))))
                return dict(self=D, marray=M)
            yield 'rank=%d,%s data' % (n, sym), build


cases(Domain_MatrixArray_to_fourier)(_ma_tf_cases)
cases(Domain_MatrixArray_to_real)(_ma_tf_cases)
