#!/bin/sh
# Runs every seeded change against its own property's check (and extra properties given in seeded/<id>/also.txt).
# Writes seeded/RESULTS.tsv:  seed  property  exit  violation-lines  first failing obligation
export PYVC_EVIDENCE_DIR=${PYVC_EVIDENCE_DIR:-/tmp/pyvc_evidence_scratch}   # runs on modified trees never overwrite /verif/evidence
OUT=/verif/seeded/RESULTS.tsv; [ -n "$APPEND" ] || : > $OUT      # APPEND=1 SEEDS="id id ...": only those, appended
[ -z "$(git -C /repo status --porcelain --untracked-files=no)" ] || { echo "/repo not clean"; exit 3; }
for D in /verif/seeded/*/; do
  ID=$(basename $D); [ -f $D/patch.diff ] || continue
  [ -z "$SEEDS" ] || echo " $SEEDS " | grep -q " $ID " || continue
  P=$(python3 -c "import json;print(json.load(open('$D/meta.json'))['property'])")
  ALSO=$(cat $D/also.txt 2>/dev/null)
  git -C /repo apply $D/patch.diff 2>/dev/null || { echo "$ID: patch failed"; continue; }
  for p in $P $ALSO; do
    grep -q "\"property_id\": \"$p\"" /verif/MANIFEST.json || { printf "%s\t%s\tnot-claimed\t-\t-\n" $ID $p >> $OUT; continue; }
    /verif/check $p > /tmp/seedm.log 2>&1; rc=$?
    printf "%s\t%s\t%s\t%s\t%s\n" $ID $p $rc "$(grep -c '^VIOLATION' /tmp/seedm.log)" "$(grep -m1 'failing obligation' /tmp/seedm.log | cut -c1-220)" >> $OUT
  done
  git -C /repo checkout -- .
done
cat $OUT
