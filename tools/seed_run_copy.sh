#!/bin/sh
# tools/seed_run_copy.sh <seed-id> <prop>...: like seed_run.sh but on the scratch checkout $COPY (default /tmp/repo_head),
# for use while /repo itself is busy.  The checkout is restored afterwards.
export PYVC_EVIDENCE_DIR=${PYVC_EVIDENCE_DIR:-/tmp/pyvc_evidence_scratch}   # runs on modified trees never overwrite /verif/evidence
COPY=${COPY:-/tmp/repo_head}
S=$1; shift
git -C $COPY apply ${SEEDS:-/verif/seeded}/$S/patch.diff 2>/dev/null || { echo "$S: patch failed"; exit 3; }
for p in "$@"; do
  REPO=$COPY $(dirname $0)/../check $p > /tmp/seedc_$p.log 2>&1; rc=$?
  echo "seed=$S prop=$p exit=$rc : $(grep -c '^VIOLATION' /tmp/seedc_$p.log) violation line(s); $(tail -1 /tmp/seedc_$p.log)"
  grep -m2 'failing obligation' /tmp/seedc_$p.log | cut -c1-240
done
git -C $COPY checkout -- .
