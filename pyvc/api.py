"""Contract-file API.

A contract file is ordinary Python.  It is used in two ways:

* natively imported: the decorators below record, per repo function, the
  spec function (an executable reference written from the property
  statements, in pointwise style) and the case builders that describe the
  pre-states (inputs + object invariants = preconditions);
* parsed with `ast`: the *same* spec function text is executed by the
  symbolic interpreter, so the contract has one text and two interpreters
  (z3 terms for proof, numpy for replay).

Spec-language helpers (`pointwise`, `exp`, ...) have a concrete numpy
meaning here and a symbolic meaning in pyvc/models.py.
"""
import math
import numpy as np

CONTRACTS = {}       # target -> Contract
LEMMAS = []          # (name, props, fn)


class Contract(object):
    def __init__(self, target, props, spec, kind='function', key=None):
        self.target = target      # 'pyPRISM/closure/PercusYevick.py::PercusYevick.calculate'
        self.key = key or target  # registry key (target, or target#defect:<name> for a known-defect formula)
        self.only = {}            # property -> goal-name patterns that belong to that property (default: all goals)
        self.props = list(props)
        self.spec = spec          # native python function
        self.spec_name = spec.__name__
        self.module = spec.__module__
        self.file = spec.__code__.co_filename
        self.cases = []           # list of (name, build(f) -> dict of args, opts)
        self.kind = kind
        self.trusted = False
        self.notes = ''


def contract(target, props=(), trusted=False, notes='', only=None):
    """only = {property: [fnmatch patterns]}: for that property just the matching `post_body:` obligations
    (conditions from the property statement evaluated on the *code's* post-state) are generated, not the
    full refinement against the spec function."""
    def deco(fn):
        c = Contract(target, props, fn)
        c.trusted = trusted
        c.notes = notes
        c.only = dict(only or {})
        CONTRACTS[target] = c
        fn._contract = c
        return fn
    return deco


def defect_of(spec_fn, name):
    """A *known-defect formula*: what the shipped code is known to compute instead of its contract.
    Used only to recognise a recorded finding precisely: a failing obligation listed in
    known_findings.txt with defect=<name> is reported as KNOWN-FINDING only if the current code is
    proved equal to this formula; any other deviation from the contract is still a violation."""
    def deco(fn):
        parent = spec_fn._contract
        c = Contract(parent.target, [], fn, key='%s#defect:%s' % (parent.target, name))
        c.cases = parent.cases          # same pre-state families (shared list, filled by @cases later)
        CONTRACTS[c.key] = c
        fn._contract = c
        return fn
    return deco


def cases(spec_fn):
    """Decorator: the decorated generator yields (case name, builder[, options])."""
    def deco(gen):
        c = spec_fn._contract
        for item in gen():
            if len(item) == 2:
                name, build = item
                opts = {}
            else:
                name, build, opts = item
            c.cases.append((name, build, opts))
            h = opts.get('history')
            if h:
                from .factory import history_builder, other_instance_builder, history_inplace_builder
                o2 = dict((k, v) for k, v in opts.items() if k != 'history')
                if h.get('mutable'):
                    c.cases.append(('%s; after an earlier %s() call and re-assignment of %s' % (name, h['method'], ','.join(h['mutable'])),
                                    history_builder(build, h['method'], tuple(h['mutable'])), o2))
                    c.cases.append(('%s; after an earlier %s() call and in-place modification of the arrays in %s' % (name, h['method'], ','.join(h['mutable'])),
                                    history_inplace_builder(build, h['method'], tuple(h['mutable'])), o2))
                if h.get('other'):
                    c.cases.append(('%s; after a %s() call on another instance with other parameters' % (name, h['method']),
                                    other_instance_builder(build, h['method']), o2))
        return gen
    return deco


def lemma(name, props=()):
    def deco(fn):
        LEMMAS.append((name, list(props), fn))
        return fn
    return deco


# ---------------------------------------------------------------------------
# concrete meaning of the spec-language helpers

def pointwise(shape, f, dtype='real'):
    if not isinstance(shape, (tuple, list)):
        shape = (shape,)
    shape = tuple(int(s) for s in shape)
    out = np.empty(shape, dtype={'real': float, 'int': int, 'bool': bool}[dtype])
    for idx in np.ndindex(*shape):
        out[idx] = f(*idx)
    return out


def require(c, name=None):
    if not c:
        raise PreconditionViolated(name or 'require')


class PreconditionViolated(Exception):
    pass


def _z3fun(name, x):
    import z3
    f = z3.Function(name, z3.RealSort(), z3.RealSort())
    return f(z3.ToReal(x) if z3.is_int(x) else x)


def _is_z3(x):
    return type(x).__module__.startswith('z3')


def exp(x):
    if _is_z3(x):
        return _z3fun('exp', x)
    try:
        return math.exp(x)
    except OverflowError:
        return float('inf')


def log(x):
    if _is_z3(x):
        return _z3fun('log', x)
    if x > 0:
        return math.log(x)
    if x == 0:
        return float('-inf')
    return float('nan')


def sqrt(x):
    if _is_z3(x):
        return _z3fun('sqrt', x)
    return math.sqrt(x) if x >= 0 else float('nan')


def sin(x):
    if _is_z3(x):
        return _z3fun('sin', x)
    return math.sin(x)


PI = math.pi


def fresh_copy(a):
    return np.array(a, copy=True)


def quad_at_zero(x, y):
    x0, x1, x2 = [float(v) for v in x[:3]]
    y0, y1, y2 = [float(v) for v in y[:3]]
    return (y0 * (x1 * x2) / ((x0 - x1) * (x0 - x2)) +
            y1 * (x0 * x2) / ((x1 - x0) * (x1 - x2)) +
            y2 * (x0 * x1) / ((x2 - x0) * (x2 - x1)))


def dst2(a):
    from scipy.fftpack import dst
    return dst(np.asarray(a, dtype=float), type=2)


def dst3(a):
    from scipy.fftpack import dst
    return dst(np.asarray(a, dtype=float), type=3)


WORST_COND = [1.0]     # largest condition number inverted during the current native spec run (read by pyvc.replay)


def matinv(a):
    try:
        c = float(np.max(np.linalg.cond(a)))
        if c != c:
            c = float('inf')
    except Exception:
        c = float('inf')
    WORST_COND[0] = max(WORST_COND[0], c)
    return np.linalg.inv(a)


def ipow(x, n):
    return x ** n


def is_none(x):
    return x is None


STANDINS = []        # (name, props, fn)  -- bounded checks, labelled bounded, never counted as proved


def standin(name, props=(), thorough_only=False):
    def deco(fn):
        fn._thorough_only = thorough_only
        STANDINS.append((name, list(props), fn))
        return fn
    return deco


# numpy-level primitives of the spec language (assumed numpy semantics, A4) -------------------

def elementwise(op, *operands):
    """op applied elementwise with numpy broadcasting; result is a fresh array."""
    if not any(isinstance(o, (list, tuple, np.ndarray)) for o in operands):
        return op(*operands)          # scalars stay scalars
    with np.errstate(all='ignore'):
        return np.array(op(*[np.asarray(o) if isinstance(o, (list, tuple)) else o for o in operands]))


def inplace_elementwise(op, a, b):
    """a[...] = op(a, b) with b broadcast to a's shape (ValueError if the result does not fit)."""
    with np.errstate(all='ignore'):
        r = op(a, np.asarray(b) if isinstance(b, (list, tuple)) else b)
    r = np.asarray(r)
    if r.shape != a.shape:
        raise ValueError('non-broadcastable output operand')
    a[...] = r


def broadcast_to(val, shape):
    return np.array(np.broadcast_to(np.asarray(val, dtype=float), tuple(int(s) for s in shape)))


def update(arr, f):
    """Overwrite the whole storage of `arr` pointwise, in place."""
    new = pointwise(arr.shape, f)
    arr[...] = new


def allclose(a, b):
    return bool(np.allclose(a, b))


def loadtxt(name):
    return np.loadtxt(name)


def koyama_w(k, n, p):
    """The Koyama per-separation kernel w_n(k): evaluated by the library's own (trusted, opaque) helper."""
    from pyPRISM.omega.DiscreteKoyama import DiscreteKoyama
    o = DiscreteKoyama.__new__(DiscreteKoyama)
    o.l, o.cos1, o.cos2 = p
    return float(o.koyama_kernel_fourier(k=np.array([float(k)]), n=int(n))[0])


def make_qty(registry, magnitude, unit):
    """The quantity `magnitude unit` in the given pint registry (spec language; pint itself is trusted)."""
    return registry.Quantity(magnitude, unit)


def array_sum(lo, hi, fn):
    """sum_{t=lo}^{hi-1} fn(t) for array- or scalar-valued fn (spec language).  Symbolically: an uninterpreted finite
    sum, matched with the corresponding accumulation loop of the code (pyvc.interp.summarise_sum)."""
    acc = None
    for t in range(int(lo), int(hi)):
        v = fn(t)
        acc = v if acc is None else acc + v
    if acc is None:
        raise PreconditionViolated('empty sum')
    return acc
