"""C11: the closed forms verified against the code (contracts/omega.py) equal the defining pair sums, for every chain
length N, and obey the sum rules.  Inductions are written as step obligations with E^N abstracted by a symbol P
(E^(N+1) = E P), each a rational-function identity."""
import z3
from pyvc.api import lemma

R = z3.RealSort()


def closedN(E, N, P):
    """N * closed_form(E, N) with E^N = P:  (N - N E^2 - 2E + 2 E P) / (1-E)^2."""
    return (N - N * E * E - 2 * E + 2 * E * P) / ((1 - E) * (1 - E))


@lemma('closed-form-equals-pair-sum', props=['C11'])
def l_closed(L):
    """S(N) = sum_{i,j=1..N} E^|i-j|.  Adding site N+1 adds the self term and the pairs (i, N+1) in both orders:
       S(N+1) = S(N) + 1 + 2 sum_{n=1..N} E^n     (definition of the pair sum)
       G(N)   = sum_{n=1..N} E^n = E (1 - E^N)/(1 - E)   (geometric sum, by induction)
    and N*closed(E,N) satisfies the same recurrence with the same start S(1) = 1; hence closed(E,N) = S(N)/N for all N >= 1
    and E != 1 (Gaussian: E = exp(-k^2 sigma^2/6);  FJC: E = sin(kl)/(kl))."""
    E, P, N = z3.Reals('E P N')
    asm = [E != 1, N >= 1]
    G = lambda P_: E * (1 - P_) / (1 - E)
    L.prove('geometric sum, base: G(1) == E', G(E) == E, asm)
    L.prove('geometric sum, step: G(N) + E^(N+1) == G(N+1)', G(P) + E * P == G(E * P), asm)
    L.prove('closed form, base: 1*closed(E,1) == S(1) == 1', closedN(E, 1, E) == 1, asm)
    L.prove('closed form, step: (N+1) closed(E,N+1) - N closed(E,N) == 1 + 2 G(N)',
            closedN(E, N + 1, E * P) - closedN(E, N, P) == 1 + 2 * G(P), asm)
    L.expect_unprovable('canary: the step fails for a closed form with the wrong E^(N+1) coefficient',
                        ((N + 1) - (N + 1) * E * E - 2 * E + 3 * E * E * P) / ((1 - E) * (1 - E)) - closedN(E, N, P) == 1 + 2 * G(P), asm)


@lemma('omega-sum-rules', props=['C11'])
def l_limits(L):
    """Limits and bound of the defining pair sum (a polynomial in E, so continuity gives the k -> 0 limit):
       E = 1 (k -> 0): S(N) = N^2, omega = N;   E = 0 (k -> infinity): S(N) = N, omega = 1;
       |E| <= 1: every term is at most 1 in modulus, so S(N) <= N^2 and omega <= N."""
    N, S, E, T = z3.Reals('N S E T')
    # k -> 0: recurrence at E = 1 is S(N+1) = S(N) + 1 + 2N
    L.prove('k->0: S(1) == 1 and S(N) == N^2 ==> S(N) + 1 + 2N == (N+1)^2', z3.Implies(S == N * N, S + 1 + 2 * N == (N + 1) * (N + 1)), [N >= 1])
    # k -> infinity: at E = 0 the recurrence is S(N+1) = S(N) + 1
    L.prove('k->inf: S(N) == N ==> S(N) + 1 == N + 1  (omega == 1)', z3.Implies(S == N, (S + 1) / (N + 1) == 1), [N >= 1])
    L.prove('closed form at E == 0 is 1 for N >= 1 (0^(N+1) == 0)', (1 - 0 - 0 + 0) / ((1 - 0) * (1 - 0)) == 1, [])
    # bound: T = sum_{n=1..N} E^n with |E^n| <= 1 gives |T| <= N
    L.prove('bound step: S(N) <= N^2 and |G(N)| <= N ==> S(N+1) <= (N+1)^2',
            z3.Implies(z3.And(S <= N * N, T <= N, T >= -N), S + 1 + 2 * T <= (N + 1) * (N + 1)), [N >= 1])
    # ring: w_t = exp(-k^2 sigma^2 t (N-t) / (6N)) is symmetric under t -> N - t, so every row of the ring's pair matrix
    # sums to sum_{t=0..N-1} w_t and (1/N) sum_ij w_|i-j| equals the sum the code evaluates
    t, kk, ss = z3.Reals('t kk ss')
    L.prove('ring: exponent symmetric under t -> N - t', -ss * kk * t * (N - t) / (6 * N) == -ss * kk * (N - t) * (N - (N - t)) / (6 * N), [N >= 1])
    L.prove('ring: exponent <= 0 for 0 <= t <= N (so every weight <= 1 and omega <= N)',
            z3.Implies(z3.And(t >= 0, t <= N, kk >= 0, ss >= 0), -ss * kk * t * (N - t) / (6 * N) <= 0), [N >= 1])
    L.prove('ring: w_0 has exponent 0 (the self term is 1: k -> infinity limit 1)', -ss * kk * 0 * (N - 0) / (6 * N) == 0, [N >= 1])
