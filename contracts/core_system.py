"""Contracts for pyPRISM/core/System.py and pyPRISM/core/PRISM.py  (properties C16, C01; used by C03, C04, C06, C10, C12).

System.check:   raises ValueError iff some density / potential / closure / omega / diameter entry or the domain is
                missing; otherwise modifies nothing.
createPRISM /   check first (its exception escapes), then PRISM(self) [then PRISM.solve]: no constructor call and no
solve:          root() call on a partial system.
PRISM.__init__: the object is wired from a private deep copy of the System: per pair a<=b the closure gets that
                pair's contact distance and that pair's potential on the domain's r grid divided by kT; a potential
                keeps an explicitly given sigma, otherwise gets (d_a+d_b)/2; omega is each pair's omega(k) on the
                domain's k grid times the site density, flagged Fourier.  The caller's System is not modified and
                shares no mutable object with the PRISM object except the list of type labels (A7).
"""
import copy
from pyvc.api import *
from pyPRISM.core.Space import Space
from pyPRISM.core.MatrixArray import MatrixArray
from pyPRISM.core.IdentityMatrixArray import IdentityMatrixArray
from pyPRISM.closure.AtomicClosure import AtomicClosure
from pyPRISM.closure.MolecularClosure import MolecularClosure
from contracts.core_matrixarray import mk_MA, LABELS
from contracts.core_domain import mk_Domain
from contracts.core_density import mk_Density, mk_Diameter
from contracts.core_tables import mk_PT

SP = 'pyPRISM.core.Space:Space'
PR = 'pyPRISM.core.PRISM:PRISM'
SY = 'pyPRISM.core.System:System'
CL = 'pyPRISM.closure.'
PO = 'pyPRISM.potential.'
OM = 'pyPRISM.omega.'


# --------------------------------------------------------------------------- pre-states

def mk_closure(f, kind, tag):
    if kind == 'PY':
        return f.construct(CL + 'PercusYevick:PercusYevick', apply_hard_core=False)
    if kind == 'PYhc':
        return f.construct(CL + 'PercusYevick:PercusYevick', apply_hard_core=True)
    if kind == 'HNC':
        return f.construct(CL + 'HyperNettedChain:HyperNettedChain', apply_hard_core=False)
    if kind == 'MSA':
        return f.construct(CL + 'MeanSphericalApproximation:MeanSphericalApproximation', apply_hard_core=True)
    raise KeyError(kind)


def mk_potential(f, kind, tag):
    if kind == 'HS':         # sigma left to the diameters
        return f.construct(PO + 'HardSphere:HardSphere', high_value=f.real('high_' + tag, pos=True))
    if kind == 'HSs':        # sigma given explicitly
        return f.construct(PO + 'HardSphere:HardSphere', sigma=f.real('usig_' + tag, pos=True), high_value=f.real('high_' + tag, pos=True))
    if kind == 'LJ':
        return f.construct(PO + 'LennardJones:LennardJones', epsilon=f.real('eps_' + tag), rcut=f.real('rcut_' + tag, pos=True), shift=True)
    if kind == 'EXP':
        return f.construct(PO + 'Exponential:Exponential', epsilon=f.real('eps_' + tag), alpha=f.real('alpha_' + tag, pos=True),
                           high_value=f.real('high_' + tag, pos=True))
    raise KeyError(kind)


def mk_omega(f, kind, tag, N):
    if kind == 'SS':
        return f.construct(OM + 'SingleSite:SingleSite')
    if kind == 'NI':
        return f.construct(OM + 'NoIntra:NoIntra')
    if kind == 'G':
        return f.construct(OM + 'Gaussian:Gaussian', sigma=f.real('osig_' + tag, pos=True), length=f.int('olen_' + tag, lo=1))
    if kind == 'FA':         # tabulated omega of some length (may or may not match the domain)
        return f.construct(OM + 'FromArray:FromArray', omega=f.array('otab_' + tag, (f.int('otabN_' + tag, lo=1),)))
    raise KeyError(kind)


MIXES = {
    # rank: list of (closure kinds, potential kinds, omega kinds) per pair a<=b in type-list order
    1: [(['PY'], ['HS'], ['SS']), (['HNC'], ['LJ'], ['G']), (['MSA'], ['EXP'], ['FA'])],
    2: [(['PY', 'HNC', 'MSA'], ['HS', 'LJ', 'EXP'], ['G', 'NI', 'SS']),
        (['PYhc', 'PY', 'HNC'], ['HSs', 'HS', 'LJ'], ['FA', 'NI', 'FA'])],
    3: [(['PY', 'HNC', 'MSA', 'PYhc', 'PY', 'HNC'], ['HS', 'LJ', 'EXP', 'HSs', 'HS', 'LJ'], ['SS', 'NI', 'NI', 'G', 'NI', 'SS'])],
}


def mk_System(f, n, mix=None, complete=True, with_domain=True):
    """A System of n types.  complete=True: fully specified with real closure / potential / omega objects;
    complete=False: every table entry (and the domain) may or may not be set (symbolic), values opaque."""
    types = list(LABELS[:n])
    D = mk_Domain(f)
    N = f.getattr(D, '_length')
    if complete:
        dens = mk_Density(f, n, all_set=True, pos=True)
        dia = mk_Diameter(f, n, all_set=True, pos=True)
        cks, pks, oks = mix
        pairs = [(a, b) for i, a in enumerate(types) for b in types[i:]]
        objs = {}
        for idx, (a, b) in enumerate(pairs):
            objs[(a, b)] = (mk_closure(f, cks[idx], a + b), mk_potential(f, pks[idx], a + b), mk_omega(f, oks[idx], a + b, N))
        closure = mk_PT(f, 'closure', n, mk_val=lambda a, b: objs[(a, b)][0], all_set=True)
        potential = mk_PT(f, 'potential', n, mk_val=lambda a, b: objs[(a, b)][1], all_set=True)
        omega = mk_PT(f, 'omega', n, mk_val=lambda a, b: objs[(a, b)][2], all_set=True)
        domain = D
    else:
        dens = mk_Density(f, n)
        dia = mk_Diameter(f, n)
        closure = mk_PT(f, 'closure', n)
        potential = mk_PT(f, 'potential', n)
        omega = mk_PT(f, 'omega', n)
        domain = f.opt('domain', D) if with_domain else None
    for o in (dens, dia, closure, potential, omega):
        f.setattr(o, 'types', types)
    for o in (f.getattr(dens, 'density'), f.getattr(dens, 'pair'), f.getattr(dens, 'site'),
              f.getattr(dia, 'diameter'), f.getattr(dia, 'volume'), f.getattr(dia, 'sigma')):
        f.setattr(o, 'types', types)
    # built by the real constructor (with some earlier temperature), then populated: kT is a public attribute that
    # users re-assign in temperature sweeps
    S = f.make(SY, args=(types,), kwargs=dict(kT=f.real('kT0', pos=True)), types=types, rank=n, domain=domain,
               density=dens, diameter=dia, potential=potential, closure=closure, omega=omega)
    f.setattr(S, 'kT', f.real('kT', pos=True))
    return S


# --------------------------------------------------------------------------- System

@contract('pyPRISM/core/System.py::System.__init__', props=['C16'])
def System_init(self, types, kT=1.0):
    from pyPRISM.core.Density import Density
    from pyPRISM.core.Diameter import Diameter
    from pyPRISM.core.PairTable import PairTable
    self.types = types
    self.rank = len(types)
    self.kT = kT
    self.domain = None
    self.diameter = Diameter(types)
    self.density = Density(types)
    self.potential = PairTable(types, 'potential')
    self.closure = PairTable(types, 'closure')
    self.omega = PairTable(types, 'omega')


@cases(System_init)
def _sys_init_cases():
    for n in (1, 2, 3):
        def build(f, n=n):
            return dict(self=f.obj(SY), types=list(LABELS[:n]), kT=f.real('kT', pos=True))
        yield 'types=%d' % n, build


@contract('pyPRISM/core/System.py::System.check', props=['C16'])
def System_check(self):
    # raises ValueError iff some entry of the five tables or the domain is missing (each table's own check() contract:
    # "raises ValueError exactly when some entry is unset", C14/C15); nothing is modified on either outcome
    self.density.check()
    self.potential.check()
    self.closure.check()
    self.omega.check()
    self.diameter.check()
    if self.domain is None:
        raise ValueError


def _check_post(f, args, res):
    return []


@cases(System_check)
def _sys_check_cases():
    for n in (1, 2, 3):
        def build(f, n=n):
            return dict(self=mk_System(f, n, complete=False))
        yield 'types=%d, any subset of the specifications missing' % n, build
    def build_full(f):
        return dict(self=mk_System(f, 2, mix=MIXES[2][0]))
    yield 'types=2, fully specified with real objects', build_full


# --------------------------------------------------------------------------- PRISM.__init__

@contract('pyPRISM/core/PRISM.py::PRISM.__init__', props=['C16', 'C01', 'C10', 'C12'])
def PRISM_init(self, sys):
    self.sys = copy.deepcopy(sys)            # private snapshot: nothing below writes to the caller's System
    S = self.sys
    n = len(S.types)
    r = S.domain.r
    for i in range(n):
        for j in range(i, n):
            a = S.types[i]
            b = S.types[j]
            U = S.potential.values[a][b]
            cl = S.closure.values[a][b]
            if isinstance(cl, AtomicClosure):
                sig = S.diameter.sigma.values[a][b]          # == (d_a + d_b)/2 by the Diameter invariant (C15)
                if U.sigma is None:
                    U.sigma = sig                            # an explicitly given sigma is kept
                cl.sigma = sig
                u = U.calculate(r)
                cl.potential = pointwise(u.shape, lambda m: u[m] / S.kT)
            elif isinstance(cl, MolecularClosure):
                raise NotImplementedError
    N = sys.domain.length
    self.x = pointwise(sys.rank * sys.rank * N, lambda m: 0.0)
    self.y = pointwise(sys.rank * sys.rank * N, lambda m: 0.0)
    k = sys.domain.k
    w = [[None for j in range(n)] for i in range(n)]
    lengths = []
    for i in range(n):
        for j in range(i, n):
            w[i][j] = S.omega.values[S.types[i]][S.types[j]].calculate(k)      # that pair's omega on the domain's k grid
            lengths.append(len(w[i][j]))
    for x in lengths:
        if x != lengths[0]:
            raise ValueError                                  # tabulated omegas of different lengths are never combined
    L = lengths[0]
    site = sys.density.site.data
    self.omega = MatrixArray(length=L, rank=n, space=Space.Fourier, types=S.omega.types)
    self.omega.data = pointwise((L, n, n), lambda l, p, q: site[0, p, q] * sum(
        [(w[i][j][l] if ((p == i and q == j) or (p == j and q == i)) else 0.0) for i in range(n) for j in range(i, n)]))
    self.directCorr = MatrixArray(length=N, rank=sys.rank, space=Space.Real, types=sys.types)
    self.totalCorr = MatrixArray(length=N, rank=sys.rank, space=Space.Fourier, types=sys.types)
    self.GammaIn = MatrixArray(length=N, rank=sys.rank, space=Space.Real, types=sys.types)
    self.GammaOut = MatrixArray(length=N, rank=sys.rank, space=Space.Real, types=sys.types)
    self.OC = MatrixArray(length=N, rank=sys.rank, space=Space.Fourier, types=sys.types)
    self.I = IdentityMatrixArray(length=N, rank=sys.rank, space=Space.Fourier, types=sys.types)


def _wiring_post(f, args, res):
    """C16's wiring clauses, stated on the contract's post-state (the refinement transfers them to the code)."""
    P = args['self']
    S = f.getattr(P, 'sys')
    types = f.getattr(S, 'types')
    D = f.getattr(S, 'domain')
    N = f.getattr(D, '_length')
    kT = f.getattr(S, 'kT')
    dv = f.getattr(f.getattr(f.getattr(S, 'diameter'), 'diameter'), 'values')
    out = []
    for i, a in enumerate(types):
        for b in types[i:]:
            cl = f.getattr(f.getattr(S, 'closure'), 'values')[a][b]
            U = f.getattr(f.getattr(S, 'potential'), 'values')[a][b]
            out.append(('closure[%s,%s].sigma == (d_%s + d_%s)/2' % (a, b, a, b),
                        f.eq(f.getattr(cl, 'sigma'), (f.val(dv[a]) + f.val(dv[b])) / 2)))
            out.append(('closure[%s,%s].potential lives on the domain grid' % (a, b), f.eq(f.getattr(cl, 'potential').shape[0], N)))
    W = f.getattr(P, 'omega')
    out.append(('omega is flagged Fourier', f.getattr(W, 'space') == f.enum(SP, 'Fourier')))
    for nm, sp in (('directCorr', 'Real'), ('totalCorr', 'Fourier'), ('GammaIn', 'Real'), ('GammaOut', 'Real')):
        M = f.getattr(P, nm)
        out.append(('%s is %d x %d x domain.length' % (nm, len(types), len(types)),
                    f.And(f.eq(f.getattr(M, 'data').shape[0], N), f.getattr(M, 'data').shape[1] == len(types))))
    return out


@cases(PRISM_init)
def _prism_init_cases():
    for n in (1, 2, 3):
        for mi, mix in enumerate(MIXES[n]):
            def build(f, n=n, mix=mix):
                return dict(self=f.obj(PR), sys=mk_System(f, n, mix=mix))
            yield 'rank=%d,mix=%d (%s)' % (n, mi, '/'.join(mix[0]) + ';' + '/'.join(mix[1]) + ';' + '/'.join(mix[2])), build, {'post': _wiring_post}
