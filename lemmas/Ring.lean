/-
Second opinion (Lean 4 + Mathlib) on the abstract-ring lemmas of contracts/lemmas.py.
The z3 hint chains decide them on every run; this file is re-checked in the thorough tier only.
R is an arbitrary (non-commutative) ring: the n x n matrices at one wavenumber.
-/
import Mathlib

/-- C01: the stored arrays satisfy H = (1 - A)⁻¹ A B  ⇒  H = A (B + H)  (A = Ω C, B = Ω): the PRISM equation. -/
theorem prism_fixed_point {R : Type*} [Ring R] (A B H J : R)
    (_h1 : J * (1 - A) = 1) (h2 : (1 - A) * J = 1) (hH : H = J * A * B) :
    H = A * (B + H) := by
  have e1 : (1 - A) * H = A * B := by
    rw [hH, ← mul_assoc, ← mul_assoc, h2, one_mul]
  have e2 : (1 - A) * H = H - A * H := by noncomm_ring
  have e3 : H - A * H = A * B := by rw [← e2]; exact e1
  have e4 : H = A * B + A * H := sub_eq_iff_eq_add.mp e3
  rw [mul_add]; exact e4

/-- C05: S = Ω + (1 - A)⁻¹ A Ω  ⇒  S = (1 - A)⁻¹ Ω. -/
theorem structure_factor_identity {R : Type*} [Ring R] (A W H J S : R)
    (h1 : J * (1 - A) = 1) (h2 : (1 - A) * J = 1) (hH : H = J * A * W) (hS : S = W + H) :
    S = J * W := by
  have k : (1 - A) * (J * A * W) = A * W := by
    rw [← mul_assoc, ← mul_assoc, h2, one_mul]
  have e1 : (1 - A) * S = W := by
    rw [hS, hH, mul_add, k]; noncomm_ring
  calc S = 1 * S := by rw [one_mul]
    _ = (J * (1 - A)) * S := by rw [h1]
    _ = J * ((1 - A) * S) := by rw [mul_assoc]
    _ = J * W := by rw [e1]

/-- C04: conjugation with an invertible Q maps solutions to solutions (type permutation). -/
theorem permutation_equivariance {R : Type*} [Ring R] (W C J Q Qt H : R)
    (q1 : Qt * Q = 1) (_q2 : Q * Qt = 1)
    (h1 : J * (1 - W * C) = 1) (hH : H = J * (W * C) * W) :
    (Q * J * Qt) * (1 - (Q * W * Qt) * (Q * C * Qt)) = 1 ∧
    (Q * J * Qt) * ((Q * W * Qt) * (Q * C * Qt)) * (Q * W * Qt) = Q * H * Qt := by
  have m : ∀ X Y : R, (Q * X * Qt) * (Q * Y * Qt) = Q * (X * Y) * Qt := by
    intro X Y
    calc (Q * X * Qt) * (Q * Y * Qt) = Q * X * (Qt * Q) * Y * Qt := by noncomm_ring
      _ = Q * (X * Y) * Qt := by rw [q1]; noncomm_ring
  constructor
  · have : (1 : R) - (Q * W * Qt) * (Q * C * Qt) = Q * (1 - W * C) * Qt := by
      rw [m]; have : Q * (1 - W * C) * Qt = Q * Qt - Q * (W * C) * Qt := by noncomm_ring
      rw [this, _q2]
    rw [this, m, h1]; simpa using _q2
  · rw [m, m, m, hH]
