"""Refinement checking of a repo function body against its sidecar contract.

For every case (pre-state family) of a contract, all feasible paths of
`body ; spec` are explored from the same symbolic pre-state.  Each path
yields named obligations  facts /\\ path-condition ==> component-equality
(return value, every reachable field, contents of every pre-existing array,
aliasing structure, raised exception).  Obligations go to z3 (then cvc5);
anything not proved is handed to the concrete differential replay
(pyvc/replay.py), which runs the *real* function and the spec natively.
"""
import os
import sys
import time
import traceback
import z3
from .sym import *
from .arr import *
from .state import State, Shared, SObj
from . import interp as I
from .factory import SymFactory
from .models import SSet

SOLVER_TIMEOUT_MS = int(os.environ.get('PYVC_SOLVER_TIMEOUT_MS', '20000'))


class Outcome(object):
    def __init__(self, kind, value=None):
        self.kind = kind      # 'return' | 'raise'
        self.value = value    # returned value | exception name


class PathResult(object):
    def __init__(self):
        self.goals = []        # (name, z3 Bool | False)
        self.assumptions = []  # z3 Bools
        self.desc = ''
        self.outA = None
        self.outB = None


class Mismatch(Exception):
    pass


# ---------------------------------------------------------------------------

def resolve_target(ip, target):
    """'pyPRISM/x/Y.py::Class.method' -> SFunc of the repo body."""
    path, qual = target.split('::')
    dotted = path[:-3].replace('/', '.')
    m = ip.import_name(dotted)
    parts = qual.split('.')
    v = m.env.vars.get(parts[0])
    if v is None:
        raise KeyError('target %s not found' % target)
    if len(parts) == 1:
        return v
    cls = v
    if len(parts) == 3 and parts[2] in ('setter', 'getter'):
        p = cls.props.get(parts[1])
        f = p[1] if parts[2] == 'setter' else p[0]
        if f is None:
            raise KeyError('target %s not found' % target)
        return f
    f = cls.attrs.get(parts[1])
    if not isinstance(f, I.SFunc):
        raise KeyError('target %s not found' % target)
    return f


def build_registry(prog, contracts):
    """repo qualified name -> spec SFunc (parsed from the contract file's own text)."""
    tmp_st = State(Shared(), [])
    ip = I.Interp(prog, tmp_st)
    reg = {}
    for key, c in contracts.items():
        target = key
        modname = 'contracts.' + os.path.splitext(os.path.basename(c.file))[0]
        m = ip.import_name(modname)
        f = m.env.vars.get(c.spec_name)
        if not isinstance(f, I.SFunc):
            raise KeyError('spec %s not found in %s' % (c.spec_name, c.file))
        f.is_spec = True
        reg[target] = f
    return reg


def execute(ip, func, args):
    try:
        gen = ip.call_function(func, [], dict((k, v) for k, v in args.items() if not k.startswith('_')))
        v = I.run_to_completion(gen)
        if isinstance(v, I.SGen):
            # generator functions: materialise the yielded sequence lazily-correctly by draining now
            items = []
            while True:
                x = I.run_to_completion(ip.next_item(v))
                if x is I.END:
                    break
                items.append(x)
            v = ('generator', items)
        return Outcome('return', v)
    except SymRaise as e:
        return Outcome('raise', e.name)


# ---------------------------------------------------------------------------
# symbolic comparison of two outcomes / post-states

class Comparer(object):
    def __init__(self, stA, stB, ntok0, noid0, names):
        self.A = stA
        self.B = stB
        self.ntok0 = ntok0      # tokens < ntok0 are pre-state tokens
        self.noid0 = noid0
        self.names = names      # oid -> access path (pre objects), ('tok',t) -> path
        self.goals = []
        self.objmap = {}
        self.objrev = {}
        self.tokmap = {}
        self.tokrev = {}
        self.refmap = {}
        self.pymap = {}
        self.gen = 0
        self.guards = []
        self.visited_pre = set()
        self.ignore = ()
        self.own_only = set()     # pre-existing objects reachable from `self` only
        self.replaced = set()     # ... that one side replaced by a fresh object (contents compared there)
        self.extra_attrs = set()
        from . import run as _run
        self.footprint = _run.footprint()

    def goal(self, name, g):
        for pre in self.ignore:
            if name.startswith(pre):
                return
        if self.guards:
            g = mk_implies(mk_and(*self.guards), g)
        self.goals.append((name, g))       # (a goal that evaluates to True syntactically is recorded as 'trivial')

    def mismatch(self, name, why):
        self.goal(name + ' {' + why + '}', False)

    def generic(self, shape):
        idx = []
        inb = []
        for s in shape:
            g = z3.Int('g!%d' % self.gen)
            self.gen += 1
            idx.append(g)
            inb.append(g >= 0)
            inb.append(mk_cmp('<', g, s))
        return tuple(idx), mk_and(*inb)

    def val(self, name, a, b):
        A, B = self.A, self.B
        if isinstance(a, SOpt) or isinstance(b, SOpt):
            oa = a if isinstance(a, SOpt) else SOpt(a is None, a)
            ob = b if isinstance(b, SOpt) else SOpt(b is None, b)
            self.goal(name + ' is None', mk_eq(oa.isnone, ob.isnone))
            both = mk_and(mk_not(oa.isnone), mk_not(ob.isnone))
            if both is False:
                return
            self.guards.append(both)
            try:
                self.val(name, oa.val, ob.val)
            finally:
                self.guards.pop()
            return
        if a is None or b is None:
            if a is not b:
                self.mismatch(name, 'None vs value')
            return
        if (is_num(a) or is_boolish(a)) and (is_num(b) or is_boolish(b)):
            if isinstance(a, bool) != isinstance(b, bool) and not (is_sym(a) or is_sym(b)):
                self.mismatch(name, 'bool vs number')
                return
            self.goal(name, mk_eq(a, b))
            return
        if isinstance(a, SArr) and isinstance(b, SArr):
            self.arr(name, a, b)
            return
        if isinstance(a, SObj) and isinstance(b, SObj):
            self.obj(name, a, b)
            return
        if isinstance(a, (list, tuple)) and isinstance(b, (list, tuple)):
            if type(a) is not type(b):
                self.mismatch(name, 'list vs tuple')
                return
            if isinstance(a, list) and not (a and all(isinstance(x, str) for x in a) and all(isinstance(x, str) for x in b)):
                # (lists of type labels are compared by value: they are never mutated, A7, and the library itself
                #  shares one list between a System, its tables and its MatrixArrays)
                ka = id(a)
                if ka in self.pymap:
                    if self.pymap[ka] != id(b):
                        self.mismatch(name, 'aliasing of lists differs')
                    return
                self.pymap[ka] = id(b)
            if len(a) != len(b):
                self.mismatch(name, 'length %d vs %d' % (len(a), len(b)))
                return
            for i, (x, y) in enumerate(zip(a, b)):
                self.val('%s[%d]' % (name, i), x, y)
            return
        if isinstance(a, dict) and isinstance(b, dict):
            ka = id(a)
            if ka in self.pymap:
                if self.pymap[ka] != id(b):
                    self.mismatch(name, 'aliasing of dicts differs')
                return
            self.pymap[ka] = id(b)
            if set(a.keys()) != set(b.keys()):
                self.mismatch(name, 'keys differ')
                return
            for k in a:
                self.val('%s[%r]' % (name, k), a[k], b[k])
            return
        if isinstance(a, SRef) and isinstance(b, SRef):
            if a.origin is None and b.origin is None:
                if a.key != b.key:
                    self.mismatch(name, 'different objects')
                return
            if (a.origin is None) != (b.origin is None):
                self.mismatch(name, 'copy vs original')
                return
            if a.key in self.refmap:
                if self.refmap[a.key] != b.key:
                    self.mismatch(name, 'aliasing of copies differs')
                return
            if b.key in self.refmap.values():
                self.mismatch(name, 'aliasing of copies differs')
                return
            self.refmap[a.key] = b.key
            self.val(name + '.copy_of', a.origin, b.origin)
            return
        if isinstance(a, SEnumSym) or isinstance(b, SEnumSym):
            ta = a.term if isinstance(a, SEnumSym) else getattr(a, 'value', None)
            tb = b.term if isinstance(b, SEnumSym) else getattr(b, 'value', None)
            if ta is None or tb is None:
                self.mismatch(name, 'enum vs other')
                return
            self.goal(name, mk_eq(ta, tb))
            return
        if isinstance(a, SStr) and isinstance(b, SStr):
            return
        if isinstance(a, I.SFunc) and isinstance(b, I.SFunc):
            if a.node is not b.node and I.ast.dump(a.node) != I.ast.dump(b.node):
                self.mismatch(name, 'different functions')
            return
        if isinstance(a, I.SBound) and isinstance(b, I.SBound):
            self.val(name + '.__self__', a.obj, b.obj)
            if a.func.node is not b.func.node:
                self.mismatch(name, 'different methods')
            return
        if isinstance(a, I.SRecord) and isinstance(b, I.SRecord):
            if set(a.fields) != set(b.fields):
                self.mismatch(name, 'record fields differ')
                return
            for k in a.fields:
                self.val(name + '.' + k, a.fields[k], b.fields[k])
            return
        if isinstance(a, SSet) and isinstance(b, SSet):
            return
        if isinstance(a, I.SReg) and isinstance(b, I.SReg):
            # unit registries: same user definitions (name -> scale, dimension)
            if set(a.defs) != set(b.defs):
                self.mismatch(name, 'registry definitions %s vs %s' % (sorted(a.defs), sorted(b.defs)))
                return
            for k in sorted(a.defs):
                ua, ub = a.defs[k], b.defs[k]
                if tuple(ua.dims) != tuple(ub.dims):
                    self.mismatch('%s[%s]' % (name, k), 'dimension differs')
                else:
                    self.goal('%s[%s].scale' % (name, k), mk_eq(ua.scale, ub.scale))
            return
        if isinstance(a, I.SQty) and isinstance(b, I.SQty):
            from .models import qty_compare
            qty_compare(self, name, a, b)
            return
        if type(a) is type(b) and isinstance(a, (str, SEnum, I.SClass, I.SModule)) or (isinstance(a, (str, SEnum)) and isinstance(b, (str, SEnum))):
            if not (a == b):
                self.mismatch(name, '%r vs %r' % (a, b))
            return
        if isinstance(a, I.SClass) and isinstance(b, I.SClass):
            if a.name != b.name:
                self.mismatch(name, 'class differs')
            return
        self.mismatch(name, 'incomparable %s vs %s' % (type(a).__name__, type(b).__name__))

    def tok_pair(self, name, ta, tb):
        """Register correspondence of storage tokens; returns False on aliasing conflict."""
        pa, pb = ta < self.ntok0, tb < self.ntok0
        if pa or pb:
            if ta != tb:
                self.mismatch(name, 'array aliases different pre-existing storage')
                return False
            return True
        if ta in self.tokmap:
            if self.tokmap[ta] != tb:
                self.mismatch(name, 'aliasing of fresh arrays differs')
                return False
            return True
        if tb in self.tokrev:
            self.mismatch(name, 'aliasing of fresh arrays differs')
            return False
        self.tokmap[ta] = tb
        self.tokrev[tb] = ta
        return True

    def arr(self, name, a, b):
        if len(a.shape) != len(b.shape):
            self.mismatch(name, 'ndim %d vs %d' % (len(a.shape), len(b.shape)))
            return
        for d, (x, y) in enumerate(zip(a.shape, b.shape)):
            self.goal('%s.shape[%d]' % (name, d), mk_eq(x, y))
        if a.dtype != b.dtype:
            self.mismatch(name, 'dtype %s vs %s' % (a.dtype, b.dtype))
            return
        if not self.tok_pair(name, a.token, b.token):
            return
        idx, inb = self.generic(a.shape)
        # same window onto the storage
        if a.fwd is not None or b.fwd is not None:
            fa = a.fwd(idx) if a.fwd else idx
            fb = b.fwd(idx) if b.fwd else idx
            if len(fa) != len(fb):
                self.mismatch(name, 'views of storage of different rank')
                return
            for d, (x, y) in enumerate(zip(fa, fb)):
                self.goal('%s view-offset[%d]' % (name, d), mk_implies(inb, mk_eq(x, y)))
        # contents (through the view; for fresh storage this is the whole content when views are whole)
        ea, eb = a.elem(self.A, idx), b.elem(self.B, idx)
        self.goal('%s[*]' % name, mk_implies(inb, self.eq_elem(ea, eb)))
        # whole storage of fresh tokens reached through a partial view
        if a.token >= self.ntok0 and (a.fwd is not None):
            da, db = self.A.store[a.token], self.B.store[b.token]
            if len(da.shape) != len(db.shape):
                self.mismatch(name, 'base storage rank differs')
                return
            for d, (x, y) in enumerate(zip(da.shape, db.shape)):
                self.goal('%s.base.shape[%d]' % (name, d), mk_eq(x, y))
            bidx, binb = self.generic(da.shape)
            self.goal('%s.base[*]' % name, mk_implies(binb, self.eq_elem(da.fn(bidx), db.fn(bidx))))

    def eq_elem(self, x, y):
        if is_boolish(x) != is_boolish(y):
            return mk_eq(to_real(x), to_real(y))
        return mk_eq(x, y)

    def obj(self, name, a, b):
        pa, pb = a.oid < self.noid0, b.oid < self.noid0
        if pa or pb:
            if a.oid != b.oid:
                # One side re-uses an object that existed before the call where the other side creates a new one.  If that
                # object was owned by `self` alone (not reachable from any other argument: e.g. a pre-allocated work
                # array), re-use vs re-allocation is not observable through the contract: compare the contents.
                pre = a if pa else b
                if (pa != pb) and pre.oid in self.own_only:
                    ca, cb = getattr(a.cls, 'name', a.cls), getattr(b.cls, 'name', b.cls)
                    if ca != cb:
                        self.mismatch(name, 'class %s vs %s' % (ca, cb))
                        return
                    self.replaced.add(pre.oid)
                    self.fields(name, self.A.heap[a.oid], self.B.heap[b.oid])
                    return
                self.mismatch(name, 'refers to different pre-existing objects')
            # fields of pre objects are compared in the heap pass
            return
        if a.oid in self.objmap:
            if self.objmap[a.oid] != b.oid:
                self.mismatch(name, 'aliasing of fresh objects differs')
            return
        if b.oid in self.objrev:
            self.mismatch(name, 'aliasing of fresh objects differs')
            return
        self.objmap[a.oid] = b.oid
        self.objrev[b.oid] = a.oid
        ca = getattr(a.cls, 'name', a.cls)
        cb = getattr(b.cls, 'name', b.cls)
        if ca != cb:
            self.mismatch(name, 'class %s vs %s' % (ca, cb))
            return
        self.fields(name, self.A.heap[a.oid], self.B.heap[b.oid])

    def fields(self, name, fa, fb):
        for k in sorted(set(fa) | set(fb)):
            if k.startswith('_ghost'):
                continue
            if k not in self.footprint and self.footprint:
                self.extra_attrs.add('%s.%s' % (name, k))
                continue
            if k not in fb:
                # attribute the contract does not mention (extra state kept by the code): not compared;
                # it matters only through later calls, which the sequence cases exercise
                self.extra_attrs.add('%s.%s' % (name, k))
                continue
            if k not in fa:
                self.mismatch('%s.%s' % (name, k), 'attribute required by the contract is missing')
                continue
            self.val('%s.%s' % (name, k), fa[k], fb[k])

    def heap_pass(self):
        """Every pre-existing object and every pre-existing array storage (frame)."""
        for oid in range(1, self.noid0):
            if oid not in self.A.heap or oid not in self.B.heap or oid in self.replaced:
                continue
            nm = self.names.get(oid, 'heap#%d' % oid)
            self.fields(nm, self.A.heap[oid], self.B.heap[oid])
        for t in range(1, self.ntok0):
            da, db = self.A.store.get(t), self.B.store.get(t)
            if da is None or db is None:
                continue
            if da.version == 0 and db.version == 0:
                continue      # neither side wrote to it
            nm = self.names.get(('tok', t), 'array#%d' % t)
            idx, inb = self.generic(da.shape)
            self.goal('%s contents[*]' % nm, mk_implies(inb, self.eq_elem(da.fn(idx), db.fn(idx))))


def _ext_calls(self):
    """Matched uninterpreted external calls (dst): same sequence, pointwise equal inputs."""
    ca, cb = self.A.ext_calls, self.B.ext_calls
    if [c[0] for c in ca] != [c[0] for c in cb]:
        self.mismatch('external calls', 'code calls %s, contract calls %s' % ([c[0] for c in ca], [c[0] for c in cb]))
        return
    for k, (x, y) in enumerate(zip(ca, cb)):
        if len(x[2]) != len(y[2]):
            self.mismatch('%s call %d' % (x[0], k), 'operands of different rank')
            continue
        if x[0] == 'sum':
            self.goal('sum %d lower bound' % k, mk_eq(x[3], y[3]))
        for d, (p, q) in enumerate(zip(x[2], y[2])):
            self.goal('%s call %d input.shape[%d]' % (x[0], k, d), mk_eq(p, q))
        idx, inb = self.generic(x[2])
        self.goal('%s call %d input[*]' % (x[0], k), mk_implies(inb, mk_eq(to_real(x[1](idx)), to_real(y[1](idx)))))


Comparer.ext_calls = _ext_calls


def _reach(st, roots):
    seen, todo = set(), list(roots)
    ids = set()
    while todo:
        v = todo.pop()
        if isinstance(v, SOpt):
            v = v.val
        if isinstance(v, SObj):
            if v.oid in ids:
                continue
            ids.add(v.oid)
            todo.extend(st.heap.get(v.oid, {}).values())
        elif isinstance(v, (list, tuple)):
            if id(v) in seen:
                continue
            seen.add(id(v))
            todo.extend(v)
        elif isinstance(v, dict):
            if id(v) in seen:
                continue
            seen.add(id(v))
            todo.extend(v.values())
    return ids


def _own_only(st, args):
    """Objects of the pre-state reachable from `self` but from no other argument (and not `self` itself)."""
    if 'self' not in args or not isinstance(args['self'], SObj):
        return set()
    mine = _reach(st, [args['self']]) - {args['self'].oid}
    others = _reach(st, [v for k, v in args.items() if k != 'self'])
    return mine - others


def name_pre_state(st, args):
    """Access paths for pre-state objects / array storage (for obligation names)."""
    names = {}
    seen = set()
    todo = [(k, v) for k, v in args.items()]
    while todo:
        nm, v = todo.pop(0)
        if isinstance(v, SOpt):
            v = v.val
        if isinstance(v, SObj):
            if v.oid in names:
                continue
            names[v.oid] = nm
            for k, x in st.heap[v.oid].items():
                todo.append((nm + '.' + k, x))
        elif isinstance(v, SArr):
            names.setdefault(('tok', v.token), nm)
        elif isinstance(v, (list, tuple)):
            if id(v) in seen:
                continue
            seen.add(id(v))
            for i, x in enumerate(v):
                todo.append(('%s[%d]' % (nm, i), x))
        elif isinstance(v, dict):
            if id(v) in seen:
                continue
            seen.add(id(v))
            for k, x in v.items():
                todo.append(('%s[%r]' % (nm, k), x))
    return names


# ---------------------------------------------------------------------------

def run_path(prog, registry, contract, body_q, case_build, prefix, shared, modular=True, opts=None):
    target = contract.target
    stA = State(shared, prefix, tag='b')
    ipA = I.Interp(prog, stA, registry, modular=modular)
    ipA.no_spec_for = {target}
    fA = SymFactory(stA, ipA)
    ipA.modular = False    # builders reach their pre-states by running the real constructors / methods
    try:
        argsA = case_build(fA)
    except SymRaise:
        raise Infeasible()     # this path of the set-up calls was refused by the library: not a pre-state
    ipA.modular = modular
    stA.in_build = False
    ntok0, noid0 = stA.next_tok, stA.next_oid
    names = name_pre_state(stA, argsA)
    body = resolve_target(ipA, target)
    outA = execute(ipA, body, argsA)

    stB = State(shared, prefix, pc=stA.pc, di=stA.di, facts=stA.facts, tag='s')
    stB.fact_ids = stA.fact_ids
    ipB = I.Interp(prog, stB, registry, modular=modular)
    ipB.no_spec_for = set()
    fB = SymFactory(stB, ipB)
    ipB.modular = False
    try:
        argsB = case_build(fB)
    except SymRaise:
        raise Infeasible()
    ipB.modular = modular
    stB.in_build = False
    if (stB.next_tok, stB.next_oid) != (ntok0, noid0):
        raise Unsupported('non-deterministic case builder')
    spec = registry[contract.key]
    ipB.depth = 1      # the spec itself is never replaced
    ipB.is_spec_run = True
    outB = execute(ipB, spec, argsB)

    res = PathResult()
    res.outA, res.outB = outA, outB
    res.used_specs = set(ipA.used_specs) | set(ipB.used_specs)
    res.inlined = set(ipA.inlined) | set(ipB.inlined)
    cmp = Comparer(stA, stB, ntok0, noid0, names)
    cmp.ignore = tuple((opts or {}).get('ignore', ()))
    cmp.own_only = _own_only(stA, argsA)
    if outA.kind != outB.kind:
        cmp.mismatch('outcome', 'code %s%s, contract %s%s' % (
            outA.kind, ' ' + outA.value if outA.kind == 'raise' else 's',
            outB.kind, ' ' + outB.value if outB.kind == 'raise' else 's'))
    elif outA.kind == 'raise':
        if outA.value != outB.value:
            cmp.mismatch('outcome', 'code raises %s, contract raises %s' % (outA.value, outB.value))
        else:
            cmp.goals.append(('raises ' + outA.value, True))
    else:
        cmp.val('return', outA.value, outB.value)
        # arguments that are containers / arrays / objects: frame + effects
        for k in argsA:
            if isinstance(argsA[k], (list, dict, tuple)):
                cmp.val('arg ' + k, argsA[k], argsB[k])
        cmp.heap_pass()
        cmp.ext_calls()
        if opts and opts.get('post_body'):
            # condition from the property statement evaluated on the *code's* post-state
            for nm, cond in opts['post_body'](fA, argsA, outA.value):
                cmp.goals.append(('post_body: ' + nm, cond))
        if opts and opts.get('post'):
            # postcondition / invariant taken from the property statement, evaluated on the contract's post-state
            for nm, cond in opts['post'](fB, argsB, outB.value):
                cmp.goals.append(('post: ' + nm, cond))
        inherited = [x for x in getattr(stB, 'inherited', []) if not isinstance(x, bool)]
        for nm, pc, c in stA.call_obligations + stB.call_obligations:
            # checked from the facts, the path condition *at the call* and the preconditions the contract inherits from
            # its own callees -- not from the final path condition (which already contains the assumed precondition)
            cmp.goals.append(('call-site ' + nm, c, list(stA.facts) + [p for p in pc if not isinstance(p, bool)] + inherited))
    res.goals = cmp.goals
    # snapshot *after* the goals are built: evaluating elements at the generic indices instantiates further facts
    # (inverse axioms at that wavenumber, sqrt / exp facts of the terms that occur)
    res.assumptions = list(stA.facts) + list(stA.pc)
    res.desc = '%s / %s' % (outA.kind if outA.kind == 'return' else 'raise ' + outA.value,
                            outB.kind if outB.kind == 'return' else 'raise ' + outB.value)
    return res


QUICK_MS = 2000


def _mul_count(t, limit=24):
    """Number of distinct product / quotient nodes in a term (stops counting at `limit`)."""
    if not is_sym(t):
        return 0
    seen = set()
    todo = [t]
    n = 0
    while todo and n < limit:
        x = todo.pop()
        if x.get_id() in seen:
            continue
        seen.add(x.get_id())
        if z3.is_app(x):
            if x.decl().kind() in (z3.Z3_OP_MUL, z3.Z3_OP_DIV):
                n += 1
            todo.extend(x.children())
    return n


def _z3_once(assumptions, goal, ms):
    s = z3.Solver()
    s.set('timeout', ms)
    if goal is not False and is_sym(goal):
        from .state import cone_of_influence
        assumptions = cone_of_influence(assumptions, goal)
    for a in assumptions:
        s.add(a)
    if goal is not False:
        s.add(z3.Not(to_bool(goal)))
    return s, check_deadline(s, ms / 1000.0 + 3.0)


def smt_check(assumptions, goal, timeout_ms=None):
    """-> ('proved'|'refuted'|'unknown', model or None, seconds, backend)
    Order: z3 (short budget) -> sympy rational-function identity (pyvc/algebra.py) -> z3 (full budget) -> cvc5."""
    t0 = time.time()
    full = timeout_ms or SOLVER_TIMEOUT_MS
    if goal is True or (is_sym(goal) and z3.is_true(goal)):
        return 'proved', None, 0.0, 'trivial'
    tried_algebra = False
    if goal is not False and _mul_count(goal) >= 24:
        # large polynomial identity: computer algebra first (z3's nlsat would only burn its budget)
        tried_algebra = True
        from .algebra import algebra_check
        try:
            if algebra_check(assumptions, to_bool(goal)) == 'proved':
                return 'proved', None, time.time() - t0, 'sympy+z3'
        except Exception:
            pass
    s, r = _z3_once(assumptions, goal, min(QUICK_MS, full))
    if r == z3.unsat:
        return 'proved', None, time.time() - t0, 'z3'
    if r == z3.sat:
        return 'refuted', s.model(), time.time() - t0, 'z3'
    if goal is not False and not tried_algebra:
        from .algebra import algebra_check
        try:
            if algebra_check(assumptions, to_bool(goal)) == 'proved':
                return 'proved', None, time.time() - t0, 'sympy+z3'
        except Exception:
            pass
    if full > QUICK_MS:
        # second z3 attempt with the full budget, under a hard wall-clock bound (forked child)
        s2 = z3.Solver()
        s2.set('timeout', full)
        from .state import cone_of_influence
        for a in (cone_of_influence(assumptions, goal) if goal is not False and is_sym(goal) else assumptions):
            s2.add(a)
        if goal is not False:
            s2.add(z3.Not(to_bool(goal)))
        t1 = time.time()
        fr = forked_check(s2, full / 1000.0 + 2.0)
        if fr == 'unsat':
            return 'proved', None, time.time() - t0, 'z3'
        if fr == 'sat':
            # reproduce in this process to obtain the model (the child needed time.time()-t1 seconds)
            r = check_deadline(s2, 2.0 * (time.time() - t1) + 5.0)
            if r == z3.sat:
                return 'refuted', s2.model(), time.time() - t0, 'z3'
        s = s2
    # second opinion: cvc5 through SMT-LIB text
    from .backends import cvc5_check
    r2 = cvc5_check(s, full)
    dt = time.time() - t0
    if r2 == 'unsat':
        return 'proved', None, dt, 'cvc5'
    return 'unknown', None, dt, 'z3+cvc5'


def model_values(model, factory_names):
    """Concrete values of the builder's symbols in a z3 model (for replay)."""
    vals = {}
    if model is None:
        return vals

    def num(v):
        if v is None:
            return None
        if z3.is_int_value(v):
            return v.as_long()
        if z3.is_rational_value(v):
            return float(v.numerator_as_long()) / float(v.denominator_as_long())
        if z3.is_algebraic_value(v):
            return float(v.approx(20).numerator_as_long()) / float(v.approx(20).denominator_as_long())
        if z3.is_true(v):
            return True
        if z3.is_false(v):
            return False
        return None
    scal = {}
    for name, (kind, info) in factory_names.items():
        if kind in ('real', 'int', 'bool', 'enum'):
            c = {'real': z3.Real, 'int': z3.Int, 'bool': z3.Bool, 'enum': z3.Int}[kind](name)
            v = num(model.eval(c, model_completion=True))
            if v is not None:
                vals[name] = v
                scal[name] = v
    for name, (kind, info) in factory_names.items():
        if kind != 'array':
            continue
        shape, dtype = info
        dims = []
        ok = True
        for s in shape:
            if is_sym(s):
                v = num(model.eval(s, model_completion=True))
                if v is None:
                    ok = False
                    break
                dims.append(int(v))
            else:
                dims.append(int(s))
        if not ok or any(d < 0 or d > 64 for d in dims):
            continue
        rng = {'real': z3.RealSort(), 'int': z3.IntSort(), 'bool': z3.BoolSort()}[dtype]
        f = z3.Function(name, *([z3.IntSort()] * len(shape) + [rng]))
        import itertools
        flat = []
        for idx in itertools.product(*[range(d) for d in dims]):
            v = num(model.eval(f(*[z3.IntVal(i) for i in idx]), model_completion=True))
            flat.append(0.0 if v is None else v)
        vals[name] = flat
    return vals
