"""./check <PROPERTY> [--tier quick|thorough] | --replay <file> | --list"""
import argparse
import fnmatch
import json
import multiprocessing as mp
import os
import sys
import time
import traceback

from . import run

VERIF = run.VERIF
NPROC = int(os.environ.get('PYVC_NPROC', '16'))

TRUSTED_BASE = [
    'pyvc symbolic executor (ast -> z3), incl. its numpy axiomatisation (DESIGN.md A4)',
    'floats treated as mathematical reals (A1), ints exact (A2), assert statements execute (A3)',
    'z3 4.x/5.1 (python API), cvc5 1.0.3 for z3 unknowns',
]


def load_known_findings():
    out = []
    p = os.path.join(VERIF, 'known_findings.txt')
    if not os.path.exists(p):
        return out
    for line in open(p):
        line = line.strip()
        if not line.startswith('finding:'):
            continue
        rest = line[len('finding:'):].strip()
        d = {'text': rest}
        toks = rest.split()
        i = 0
        while i < len(toks) and '=' in toks[i] and toks[i].split('=', 1)[0] in ('property', 'obligation', 'defect', 'witness'):
            k, v = toks[i].split('=', 1)
            d[k] = v
            i += 1
        d['what'] = ' '.join(toks[i:])
        out.append(d)
    return out


def match_finding(findings, prop, obname):
    for f in findings:
        if f.get('property') == prop and fnmatch.fnmatchcase(obname, f.get('obligation', '')):
            return f
    return None


def short_target(t):
    return t.split('::')[1]


def main(argv=None):
    ap = argparse.ArgumentParser()
    ap.add_argument('prop', nargs='?')
    ap.add_argument('--tier', default=os.environ.get('VERIF_TIER', 'quick'))
    ap.add_argument('--replay')
    ap.add_argument('--list', action='store_true')
    ap.add_argument('--only', default='')
    ap.add_argument('-v', action='store_true')
    a = ap.parse_args(argv)
    seed = int(os.environ.get('VERIF_SEED', '0') or 0)
    run.setup_paths()
    if a.replay:
        return do_replay(a.replay)
    t0 = time.time()
    os.environ['PYVC_TIER'] = a.tier if a.tier in ('quick', 'thorough') else 'quick'
    contracts, lemmas = run.load_contract_modules()
    from . import api
    if a.list:
        for t, c in contracts.items():
            print(t, c.props, len(c.cases))
        return 0
    prop = a.prop
    tier = a.tier if a.tier in ('quick', 'thorough') else 'quick'
    findings = load_known_findings()
    from .props import PROPS
    meta = PROPS.get(prop)
    if meta is None:
        print('unknown or not-applicable property %s' % prop)
        return 3

    tasks = []
    for t, c in contracts.items():
        if '#defect:' in t:
            continue
        if prop in c.props and (a.only in t):
            if not c.cases:
                print('ERROR contract %s has no cases' % t)
                return 3
            for i in range(len(c.cases)):
                tasks.append((t, i, {'seed': seed, 'n_random': 300 if tier == 'quick' else 3000, 'replay_budget_s': 30 if tier == 'quick' else 600,
                                     'only': c.only.get(prop), 'prop': prop, 'crosscheck': 2 if tier == 'quick' else 25,
                                     'known': [f.get('obligation', '') for f in findings if f.get('property') == prop]}))
    lem = [(n, p, f) for (n, p, f) in lemmas if prop in p and a.only in n]
    standins = [(n, p, f) for (n, p, f) in api.STANDINS if prop in p and a.only in n and (tier == 'thorough' or not getattr(f, '_thorough_only', False))]

    results = []
    lemma_results = []
    standin_results = []
    if tasks or lem or standins:
        ctx = mp.get_context('fork')
        with ctx.Pool(min(NPROC, max(1, len(tasks) + len(lem) + len(standins)))) as pool:
            ar = pool.map_async(run.run_case_task, tasks, chunksize=1)
            lr = pool.map_async(run_lemma_task, [(n, tier, seed) for (n, p, f) in lem], chunksize=1)
            sr = pool.map_async(run_standin_task, [(n, tier, seed) for (n, p, f) in standins], chunksize=1)
            # a worker that dies (solver crash) would make Pool wait forever: bound the wait
            budget = 3000 if tier == 'quick' else 14000
            try:
                results = ar.get(timeout=budget)
                lemma_results = lr.get(timeout=budget)
                standin_results = sr.get(timeout=budget)
            except mp.TimeoutError:
                print('CHECKER-ERROR worker pool did not finish within %d s (a worker died or hung)' % budget)
                pool.terminate()
                return 3

    # a crashed case is re-run once, in this process, before it counts as a checker error: transient conditions
    # (fork failing under memory pressure, a solver process dying) must not decide an exit code
    for i, r in enumerate(results):
        if r.get('status') == 'crash':
            r2 = run.run_case_task(tasks[i])
            r2['retried_after_crash'] = r.get('detail', '')[-400:]
            results[i] = r2
    if os.environ.get('PYVC_TIMING'):
        for r in sorted(results, key=lambda r: -r.get('wall_s', 0))[:8]:
            print('TIMING %.1fs %s / %s (paths %s)' % (r.get('wall_s', 0), r['target'], r['case'], r.get('paths')))
    # ------------------------------------------------------------------ aggregate
    obligations = []       # dicts: name,status,backend,secs
    violations = []        # (obname, replay dict)
    undecided = []
    crashes = []
    funcs = {}
    used_specs, inlined = set(), set()
    solver_s = 0.0
    for r in results:
        q = short_target(r['target'])
        base = '%s/%s/%s' % (prop, q, r['case'])
        funcs.setdefault(r['target'], run.source_info(r['target']))
        used_specs |= set(r['used_specs'])
        inlined |= set(x for x in r['inlined'] if not x.startswith('contracts:'))
        solver_s += r['solver_s']
        if r['status'] == 'crash':
            crashes.append((base, r['detail']))
            continue
        if r['status'] == 'vacuous':
            crashes.append((base, 'VACUOUS: ' + r['detail']))
            continue
        for ob in r['obligations']:
            d = dict(ob)
            d['name'] = base + '/' + ob['name']
            d['kind'] = 'CF'
            obligations.append(d)
        if r['status'] == 'unsupported':
            obligations.append({'name': base + '/in-subset', 'status': 'unknown', 'backend': 'executor', 'secs': 0,
                                'vcs': 1, 'kind': 'CF', 'detail': r['detail']})
        if r.get('violation'):
            v = r['violation']
            names = [base + '/' + f[0] for f in v['failing']] or [base + '/in-subset']
            violations.append((names, {'kind': 'contract', 'target': r['target'], 'case': r['case'],
                                       'witness': v['witness'], 'failing': v['failing']}))
        elif r.get('unconfirmed'):
            for f in r['unconfirmed']:
                undecided.append((base + '/' + f[0], f[1], f[2], f[3], r))
        if r['status'] == 'unsupported' and not r.get('violation'):
            undecided.append((base + '/in-subset', 'unknown', 'out of the verified subset: ' + r['detail'], '', r))
    for lr_ in lemma_results:
        solver_s += lr_.get('solver_s', 0.0)
        if lr_.get('crash'):
            crashes.append((prop + '/lemma/' + lr_['name'], lr_['crash']))
            continue
        for ob in lr_['obligations']:
            d = dict(ob)
            d['name'] = '%s/lemma/%s/%s' % (prop, lr_['name'], ob['name'])
            d['kind'] = 'L'
            obligations.append(d)
            if ob['status'] == 'refuted':
                violations.append(([d['name']], {'kind': 'lemma', 'lemma': lr_['name'], 'obligation': ob['name'],
                                                 'witness': ob.get('witness'), 'detail': ob.get('detail', '')}))
            elif ob['status'] != 'proved':
                undecided.append((d['name'], ob['status'], ob.get('detail', ''), '', None))
    bounded = []
    for sr_ in standin_results:
        if sr_.get('crash'):
            crashes.append((prop + '/bounded/' + sr_['name'], sr_['crash']))
            continue
        bounded.append({k: sr_[k] for k in ('name', 'bounds', 'cases', 'failures_n', 'wall_s', 'note') if k in sr_})
        for fl in sr_.get('failures', []):
            nm = '%s/bounded/%s/%s' % (prop, sr_['name'], fl['id'])
            violations.append(([nm], {'kind': 'bounded', 'standin': sr_['name'], 'witness': fl}))

    # refuted by the solver but not reproduced on the real code
    nofail = []
    still_undecided = []
    for (name, st, goal, desc, r) in undecided:
        if st == 'refuted':
            nofail.append((name, goal, desc, r))
        else:
            still_undecided.append((name, st, goal))

    # ------------------------------------------------------------------ report
    exit_code = 0
    viol_lines = []
    known_lines = []
    os.makedirs(os.path.join(VERIF, 'replay', prop), exist_ok=True)
    for old in os.listdir(os.path.join(VERIF, 'replay', prop)):
        if old.startswith('violation_'):
            os.unlink(os.path.join(VERIF, 'replay', prop, old))
    nrep = 0
    known_names = set()
    defect_cache = {}
    known_by_finding = {}

    def defect_confirmed(f, target):
        """A finding that names a known-defect formula applies only if the current code is *proved* equal to it."""
        d = f.get('defect')
        if not d:
            return True
        key = '%s#defect:%s' % (target, d)
        if key not in defect_cache:
            ok = False
            obs = []
            c = contracts.get(key)
            if c is not None and c.cases:
                dtasks = [(key, i, {'seed': seed, 'n_random': 50}) for i in range(len(c.cases))]
                with mp.get_context('fork').Pool(min(NPROC, len(dtasks))) as pool2:
                    dres = pool2.map(run.run_case_task, dtasks, chunksize=1)
                ok = True
                for r2 in dres:
                    if r2['status'] != 'ok' or r2.get('violation') or r2.get('unconfirmed'):
                        ok = False
                    for ob in r2['obligations']:
                        d2 = dict(ob)
                        d2['name'] = '%s/%s/%s/known-defect[%s]/%s' % (prop, short_target(target), r2['case'], d, ob['name'])
                        d2['kind'] = 'CF'
                        obs.append(d2)
                        if ob['status'] != 'proved':
                            ok = False
            defect_cache[key] = (ok, obs)
            if ok:
                obligations.extend(obs)     # "code == recorded defect formula" are discharged obligations of this run
        return defect_cache[key][0]

    def listed(names, target):
        fs = []
        for n in names:
            f = match_finding(findings, prop, n)
            if f is None or not defect_confirmed(f, target):
                return None
            fs.append((n, f))
        return fs

    for names, rep in violations:
        fs = listed(names, rep.get('target'))
        if fs is not None:
            for n, f in fs:
                known_names.add(n)
                known_by_finding.setdefault(f['text'], (f, []))[1].append(n)
            continue
        unlisted = [n for n in names if not match_finding(findings, prop, n)] or names
        nrep += 1
        path = os.path.join(VERIF, 'replay', prop, 'violation_%d.json' % nrep)
        rep['property'] = prop
        rep['obligations'] = names
        rep['repo'] = run.REPO
        json.dump(rep, open(path, 'w'), indent=1, default=str)
        viol_lines.append('VIOLATION property=%s replay=%s' % (prop, path))
        print('  failing obligation(s): %s' % ', '.join(unlisted[:4]))
        w = rep.get('witness') or {}
        for dline in (w.get('diffs') or [])[:4]:
            print('    ' + dline)
        exit_code = 1
    for (name, goal, desc, r) in nofail:
        fs = listed([name], (r or {}).get('target'))
        if fs is not None:
            known_names.add(name)
            known_by_finding.setdefault(fs[0][1]['text'], (fs[0][1], []))[1].append(name)
            continue
        nrep += 1
        path = os.path.join(VERIF, 'replay', prop, 'violation_%d.json' % nrep)
        json.dump({'property': prop, 'kind': 'contract', 'obligations': [name], 'solver': 'z3: sat (counter-model not reproduced on the real code in %s random trials)' % (r or {}).get('replay_tried', '?'),
                   'negated_goal': goal, 'paths': desc, 'target': (r or {}).get('target'), 'case': (r or {}).get('case'),
                   'repo': run.REPO}, open(path, 'w'), indent=1, default=str)
        viol_lines.append('VIOLATION property=%s replay=%s no-failing-input-found' % (prop, path))
        print('  failing obligation: %s' % name)
        exit_code = 1
    for f, names_ in known_by_finding.values():
        known_lines.append('KNOWN-FINDING: property=%s %s [%d obligation(s), e.g. %s%s]' % (
            prop, f['what'], len(names_), names_[0], '; code proved equal to recorded defect formula %r' % f['defect'] if f.get('defect') else ''))
    for ln in known_lines:
        print(ln)
    for ln in viol_lines:
        print(ln)
    if still_undecided and exit_code == 0:
        exit_code = 2
    for (name, st, goal) in still_undecided[:20]:
        print('UNDECIDED %s (%s) %s' % (name, st, (goal or '')[:300].replace('\n', ' ')))
    if crashes:
        exit_code = 3
        for nm, d in crashes[:5]:
            print('CHECKER-ERROR %s\n%s' % (nm, d[-3000:]))

    n_known = sum(1 for o in obligations if o['name'] in known_names)
    obligations_all = obligations
    obligations = [o for o in obligations if o['name'] not in known_names]   # recorded findings are reported apart
    n_obl = len(obligations)
    n_dis = sum(1 for o in obligations if o['status'] == 'proved')
    if n_obl == 0 and not bounded:
        print('CHECKER-ERROR no obligations generated for %s' % prop)
        exit_code = 3
    by_backend = {}
    for o in obligations:
        if o['status'] == 'proved':
            by_backend[o['backend']] = by_backend.get(o['backend'], 0) + 1
    wall = time.time() - t0
    samples = [{'obligation': o['name'], 'status': o['status'], 'backend': o['backend'], 'secs': o['secs']}
               for o in (obligations[:6] + [o for o in obligations if o['status'] != 'proved'][:6])]
    ev = {
        'property_id': prop,
        'tier': tier,
        'seed': seed,
        'level': meta['level'],
        'coverage': {
            'obligations': n_obl,
            'discharged': n_dis,
            'checker_cmd': './check %s --tier %s' % (prop, tier),
            'trusted_base': TRUSTED_BASE + meta.get('trusted', []),
            'explanation': meta['explanation'],
            'functions_under_contract': sorted(funcs.values(), key=lambda d: (d['path'], d['qualname'])),
            'callee_contracts_used': sorted(used_specs),
            'callees_inlined_without_contract': sorted(inlined),
            'by_backend': by_backend,
            'solver_seconds': round(solver_s, 3),
            'cases': len(tasks),
            'native_crosscheck_trials': sum(r.get('crosscheck_trials', 0) for r in results),
            'paths': sum(r.get('paths', 0) for r in results),
            'vcs': sum(o.get('vcs', 1) for o in obligations),
            'lemmas': sorted(set(lr_['name'] for lr_ in lemma_results)),
            'undecided': [u[0] for u in still_undecided],
            'known_findings': sorted(known_names),
            'known_finding_obligations_not_counted': n_known,
            'bounded': bounded,
            'samples': samples,
            'evaluations': max(1, n_obl + sum(b.get('cases', 0) for b in bounded)),
            'distinct_nontrivial': max(2, sum(1 for o in obligations if o['backend'] != 'trivial')),
            'rule': 'one obligation per (function, pre-state case, compared component); non-trivial = needed a solver call',
        },
        'assumptions': meta.get('assumptions', []),
        'wall_s': round(wall, 2),
        'violations': len(viol_lines),
    }
    evdir = os.environ.get('PYVC_EVIDENCE_DIR') or os.path.join(VERIF, 'evidence')     # developer runs on modified trees write elsewhere
    os.makedirs(evdir, exist_ok=True)
    json.dump(ev, open(os.path.join(evdir, prop + '.json'), 'w'), indent=1)
    print('%s tier=%s: %d obligations, %d discharged, %d known-finding, %d undecided, %d violation(s); %d bounded stand-ins; %.1fs'
          % (prop, tier, n_obl, n_dis, len(known_names), len(still_undecided), len(viol_lines), len(bounded), wall))
    return exit_code


def run_lemma_task(task):
    name, tier, seed = task
    from . import api
    t0 = time.time()
    try:
        fn = [f for (n, p, f) in api.LEMMAS if n == name][0]
        from .lemma import LemmaCtx
        L = LemmaCtx(name, tier, seed)
        fn(L)
        return {'name': name, 'obligations': L.obligations, 'solver_s': L.solver_s, 'wall_s': time.time() - t0}
    except Exception:
        return {'name': name, 'crash': traceback.format_exc()}


def run_standin_task(task):
    name, tier, seed = task
    from . import api
    t0 = time.time()
    try:
        fn = [f for (n, p, f) in api.STANDINS if n == name][0]
        from .lemma import StandinCtx
        S = StandinCtx(name, tier, seed)
        fn(S)
        distinct = {}
        for fl in S.failures:
            distinct.setdefault(fl['id'], fl)          # one witness per distinct failure id (none is dropped)
        return {'name': name, 'bounds': S.bounds, 'cases': S.cases, 'failures': list(distinct.values())[:500],
                'failures_n': len(S.failures), 'note': S.note, 'wall_s': round(time.time() - t0, 2)}
    except Exception:
        return {'name': name, 'crash': traceback.format_exc()}


def do_replay(path):
    rep = json.load(open(path))
    run.load_contract_modules()
    from . import api, replay
    if rep.get('kind') == 'contract' and rep.get('witness'):
        c = api.CONTRACTS[rep['target']]
        build = [b for (n, b, o) in c.cases if n == rep['case']][0]
        r = replay.trial(c, build, rep['witness']['inputs'], rep['witness'].get('seed', 0))
        if isinstance(r, dict):
            print('REPRODUCED on %s: %s / case %s' % (run.REPO, rep['target'], rep['case']))
            print(' inputs: %s' % json.dumps(r['inputs'])[:1500])
            for d in r['diffs']:
                print('  ' + d)
            print('VIOLATION property=%s replay=%s' % (rep['property'], path))
            return 1
        print('not reproduced on %s (code and contract agree on the recorded input)' % run.REPO)
        return 0
    if rep.get('kind') in ('lemma', 'bounded'):
        print(json.dumps(rep, indent=1)[:4000])
        print('re-run ./check %s to re-evaluate this obligation' % rep['property'])
        return 0
    print(json.dumps(rep, indent=1)[:4000])
    print('no concrete input recorded (no-failing-input-found); obligation: %s' % rep.get('obligations'))
    return 0


if __name__ == '__main__':
    sys.exit(main())
