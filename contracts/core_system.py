"""Contracts for pyPRISM/core/System.py and pyPRISM/core/PRISM.py  (properties C16, C01; used by C03, C04, C06, C10, C12).

System.check:   raises ValueError iff some density / potential / closure / omega / diameter entry or the domain is
                missing; otherwise modifies nothing.
createPRISM /   check first (its exception escapes), then PRISM(self) [then PRISM.solve]: no constructor call and no
solve:          root() call on a partial system.
PRISM.__init__: the object is wired from a private deep copy of the System: per pair a<=b the closure gets that
                pair's contact distance and that pair's potential on the domain's r grid divided by kT; a potential
                keeps an explicitly given sigma, otherwise gets (d_a+d_b)/2; omega is each pair's omega(k) on the
                domain's k grid times the site density, flagged Fourier.  The caller's System is not modified and
                shares no mutable object with the PRISM object except the list of type labels (A7).
"""
import copy
from pyvc.api import *
from pyPRISM.core.Space import Space
from pyPRISM.core.MatrixArray import MatrixArray
from pyPRISM.core.IdentityMatrixArray import IdentityMatrixArray
from pyPRISM.closure.AtomicClosure import AtomicClosure
from pyPRISM.closure.MolecularClosure import MolecularClosure
from contracts.core_matrixarray import mk_MA, LABELS
from contracts.core_domain import mk_Domain
from contracts.core_density import mk_Density, mk_Diameter
from contracts.core_tables import mk_PT

SP = 'pyPRISM.core.Space:Space'
PR = 'pyPRISM.core.PRISM:PRISM'
SY = 'pyPRISM.core.System:System'
CL = 'pyPRISM.closure.'
PO = 'pyPRISM.potential.'
OM = 'pyPRISM.omega.'


# --------------------------------------------------------------------------- pre-states

def mk_closure(f, kind, tag):
    if kind == 'PY':
        return f.construct(CL + 'PercusYevick:PercusYevick', apply_hard_core=False)
    if kind == 'PYhc':
        return f.construct(CL + 'PercusYevick:PercusYevick', apply_hard_core=True)
    if kind == 'HNC':
        return f.construct(CL + 'HyperNettedChain:HyperNettedChain', apply_hard_core=False)
    if kind == 'MSA':
        return f.construct(CL + 'MeanSphericalApproximation:MeanSphericalApproximation', apply_hard_core=True)
    raise KeyError(kind)


def mk_potential(f, kind, tag):
    if kind == 'HS':         # sigma left to the diameters
        return f.construct(PO + 'HardSphere:HardSphere', high_value=f.real('high_' + tag, pos=True))
    if kind == 'HSs':        # sigma given explicitly
        return f.construct(PO + 'HardSphere:HardSphere', sigma=f.real('usig_' + tag, pos=True), high_value=f.real('high_' + tag, pos=True))
    if kind == 'LJ':
        return f.construct(PO + 'LennardJones:LennardJones', epsilon=f.real('eps_' + tag), rcut=f.real('rcut_' + tag, pos=True), shift=True)
    if kind == 'EXP':
        return f.construct(PO + 'Exponential:Exponential', epsilon=f.real('eps_' + tag), alpha=f.real('alpha_' + tag, pos=True),
                           high_value=f.real('high_' + tag, pos=True))
    raise KeyError(kind)


def mk_omega(f, kind, tag, N):
    if kind == 'SS':
        return f.construct(OM + 'SingleSite:SingleSite')
    if kind == 'NI':
        return f.construct(OM + 'NoIntra:NoIntra')
    if kind == 'G':
        return f.construct(OM + 'Gaussian:Gaussian', sigma=f.real('osig_' + tag, pos=True), length=f.int('olen_' + tag, lo=1))
    if kind == 'FA':         # tabulated omega of some length (may or may not match the domain)
        return f.construct(OM + 'FromArray:FromArray', omega=f.array('otab_' + tag, (f.int('otabN_' + tag, lo=1),)))
    raise KeyError(kind)


MIXES = {
    # rank: list of (closure kinds, potential kinds, omega kinds) per pair a<=b in type-list order
    1: [(['PY'], ['HS'], ['SS']), (['HNC'], ['LJ'], ['G']), (['MSA'], ['EXP'], ['FA'])],
    2: [(['PY', 'HNC', 'MSA'], ['HS', 'LJ', 'EXP'], ['G', 'NI', 'SS']),
        (['PYhc', 'PY', 'HNC'], ['HSs', 'HS', 'LJ'], ['FA', 'NI', 'FA']),
        (['PY', 'PY', 'HNC'], ['HS', 'HS', 'LJ'], ['G', 'G', 'SS'])],          # a copolymer: non-zero unlike-pair omega
    3: [(['PY', 'HNC', 'MSA', 'PYhc', 'PY', 'HNC'], ['HS', 'LJ', 'EXP', 'HSs', 'HS', 'LJ'], ['SS', 'NI', 'G', 'G', 'NI', 'SS'])],
    4: [(['PY', 'HNC', 'PY', 'PY', 'PYhc', 'PY', 'HNC', 'MSA', 'PY', 'PY'], ['HS', 'LJ', 'HS', 'HS', 'HSs', 'HS', 'LJ', 'EXP', 'HS', 'HS'],
         ['SS', 'NI', 'NI', 'NI', 'G', 'NI', 'NI', 'SS', 'NI', 'SS'])],
}


def something_missing(f, S):
    """Some density / diameter / potential / closure / omega entry, or the domain, is unset."""
    flags = [f.is_none(f.getattr(S, 'domain'))]
    for tab in (f.getattr(f.getattr(S, 'density'), 'density'), f.getattr(f.getattr(S, 'diameter'), 'diameter')):
        flags += [f.is_none(v) for v in f.getattr(tab, 'values').values()]
    for nm in ('potential', 'closure', 'omega'):
        for row in f.getattr(f.getattr(S, nm), 'values').values():
            flags += [f.is_none(v) for v in row.values()]
    return f.Or(*flags)


def mk_System(f, n, mix=None, complete=True, with_domain=True):
    """A System of n types.  complete=True: fully specified with real closure / potential / omega objects;
    complete=False: every table entry (and the domain) may or may not be set (symbolic), values opaque."""
    types = list(LABELS[:n])
    D = mk_Domain(f)
    N = f.getattr(D, '_length')
    if complete:
        dens = mk_Density(f, n, all_set=True, pos=True)
        dia = mk_Diameter(f, n, all_set=True, pos=True)
        cks, pks, oks = mix
        pairs = [(a, b) for i, a in enumerate(types) for b in types[i:]]
        objs = {}
        for idx, (a, b) in enumerate(pairs):
            objs[(a, b)] = (mk_closure(f, cks[idx], a + b), mk_potential(f, pks[idx], a + b), mk_omega(f, oks[idx], a + b, N))
        closure = mk_PT(f, 'closure', n, mk_val=lambda a, b: objs[(a, b)][0], all_set=True)
        potential = mk_PT(f, 'potential', n, mk_val=lambda a, b: objs[(a, b)][1], all_set=True)
        omega = mk_PT(f, 'omega', n, mk_val=lambda a, b: objs[(a, b)][2], all_set=True)
        domain = D
    else:
        dens = mk_Density(f, n)
        dia = mk_Diameter(f, n)
        closure = mk_PT(f, 'closure', n)
        potential = mk_PT(f, 'potential', n)
        omega = mk_PT(f, 'omega', n)
        domain = f.opt('domain', D) if with_domain else None
    for o in (dens, dia, closure, potential, omega):
        f.setattr(o, 'types', types)
    for o in (f.getattr(dens, 'density'), f.getattr(dens, 'pair'), f.getattr(dens, 'site'),
              f.getattr(dia, 'diameter'), f.getattr(dia, 'volume'), f.getattr(dia, 'sigma')):
        f.setattr(o, 'types', types)
    # built by the real constructor (with some earlier temperature), then populated: kT is a public attribute that
    # users re-assign in temperature sweeps
    S = f.make(SY, args=(types,), kwargs=dict(kT=f.real('kT0', pos=True)), types=types, rank=n, domain=domain,
               density=dens, diameter=dia, potential=potential, closure=closure, omega=omega)
    f.setattr(S, 'kT', f.real('kT', pos=True))
    return S


# --------------------------------------------------------------------------- System

@contract('pyPRISM/core/System.py::System.__init__', props=['C16'])
def System_init(self, types, kT=1.0):
    from pyPRISM.core.Density import Density
    from pyPRISM.core.Diameter import Diameter
    from pyPRISM.core.PairTable import PairTable
    self.types = types
    self.rank = len(types)
    self.kT = kT
    self.domain = None
    self.diameter = Diameter(types)
    self.density = Density(types)
    self.potential = PairTable(types, 'potential')
    self.closure = PairTable(types, 'closure')
    self.omega = PairTable(types, 'omega')


@cases(System_init)
def _sys_init_cases():
    for n in (1, 2, 3):
        def build(f, n=n):
            return dict(self=f.obj(SY), types=list(LABELS[:n]), kT=f.real('kT', pos=True))
        yield 'types=%d' % n, build


@contract('pyPRISM/core/System.py::System.check', props=['C16'])
def System_check(self):
    # raises ValueError iff some entry of the five tables or the domain is missing (each table's own check() contract:
    # "raises ValueError exactly when some entry is unset", C14/C15); nothing is modified on either outcome
    self.density.check()
    self.potential.check()
    self.closure.check()
    self.omega.check()
    self.diameter.check()
    if self.domain is None:
        raise ValueError


def _check_post(f, args, res):
    return []


@cases(System_check)
def _sys_check_cases():
    for n in (1, 2, 3):
        def build(f, n=n):
            return dict(self=mk_System(f, n, complete=False))
        yield 'types=%d, any subset of the specifications missing' % n, build
    def build_full(f):
        return dict(self=mk_System(f, 2, mix=MIXES[2][0]))
    yield 'types=2, fully specified with real objects', build_full


# --------------------------------------------------------------------------- PRISM.__init__

@contract('pyPRISM/core/PRISM.py::PRISM.__init__', props=['C16', 'C01', 'C02', 'C03', 'C04', 'C10', 'C12'])
def PRISM_init(self, sys):
    self.sys = copy.deepcopy(sys)            # private snapshot: nothing below writes to the caller's System
    S = self.sys
    n = len(S.types)
    r = S.domain.r
    for i in range(n):
        for j in range(i, n):
            a = S.types[i]
            b = S.types[j]
            U = S.potential.values[a][b]
            cl = S.closure.values[a][b]
            if isinstance(cl, AtomicClosure):
                sig = S.diameter.sigma.values[a][b]          # == (d_a + d_b)/2 by the Diameter invariant (C15)
                if U.sigma is None:
                    U.sigma = sig                            # an explicitly given sigma is kept
                cl.sigma = sig
                u = U.calculate(r)
                cl.potential = pointwise(u.shape, lambda m: u[m] / S.kT)
            elif isinstance(cl, MolecularClosure):
                raise NotImplementedError
    N = sys.domain.length
    self.x = pointwise(sys.rank * sys.rank * N, lambda m: 0.0)
    self.y = pointwise(sys.rank * sys.rank * N, lambda m: 0.0)
    k = sys.domain.k
    w = [[None for j in range(n)] for i in range(n)]
    lengths = []
    for i in range(n):
        for j in range(i, n):
            w[i][j] = S.omega.values[S.types[i]][S.types[j]].calculate(k)      # that pair's omega on the domain's k grid
            lengths.append(len(w[i][j]))
    for x in lengths:
        if x != lengths[0]:
            raise ValueError                                  # tabulated omegas of different lengths are never combined
    L = lengths[0]
    site = sys.density.site.data
    self.omega = MatrixArray(length=L, rank=n, space=Space.Fourier, types=S.omega.types)
    self.omega.data = pointwise((L, n, n), lambda l, p, q: site[0, p, q] * sum(
        [(w[i][j][l] if ((p == i and q == j) or (p == j and q == i)) else 0.0) for i in range(n) for j in range(i, n)]))
    self.directCorr = MatrixArray(length=N, rank=sys.rank, space=Space.Real, types=sys.types)
    self.totalCorr = MatrixArray(length=N, rank=sys.rank, space=Space.Fourier, types=sys.types)
    self.GammaIn = MatrixArray(length=N, rank=sys.rank, space=Space.Real, types=sys.types)
    self.GammaOut = MatrixArray(length=N, rank=sys.rank, space=Space.Real, types=sys.types)
    self.OC = MatrixArray(length=N, rank=sys.rank, space=Space.Fourier, types=sys.types)
    self.I = IdentityMatrixArray(length=N, rank=sys.rank, space=Space.Fourier, types=sys.types)


def _wiring_post(f, args, res):
    """C16's wiring clauses, stated on the contract's post-state (the refinement transfers them to the code)."""
    P = args['self']
    S = f.getattr(P, 'sys')
    types = f.getattr(S, 'types')
    D = f.getattr(S, 'domain')
    N = f.getattr(D, '_length')
    kT = f.getattr(S, 'kT')
    dv = f.getattr(f.getattr(f.getattr(S, 'diameter'), 'diameter'), 'values')
    out = []
    for i, a in enumerate(types):
        for b in types[i:]:
            cl = f.getattr(f.getattr(S, 'closure'), 'values')[a][b]
            U = f.getattr(f.getattr(S, 'potential'), 'values')[a][b]
            out.append(('closure[%s,%s].sigma == (d_%s + d_%s)/2' % (a, b, a, b),
                        f.eq(f.getattr(cl, 'sigma'), (f.val(dv[a]) + f.val(dv[b])) / 2)))
            out.append(('closure[%s,%s].potential lives on the domain grid' % (a, b), f.eq(f.getattr(cl, 'potential').shape[0], N)))
    W = f.getattr(P, 'omega')
    out.append(('omega is flagged Fourier', f.getattr(W, 'space') == f.enum(SP, 'Fourier')))
    for nm, sp in (('directCorr', 'Real'), ('totalCorr', 'Fourier'), ('GammaIn', 'Real'), ('GammaOut', 'Real')):
        M = f.getattr(P, nm)
        out.append(('%s is %d x %d x domain.length' % (nm, len(types), len(types)),
                    f.And(f.eq(f.getattr(M, 'data').shape[0], N), f.getattr(M, 'data').shape[1] == len(types))))
    return out


@cases(PRISM_init)
def _prism_init_cases():
    for n in (1, 2, 3):
        for mi, mix in enumerate(MIXES[n]):
            def build(f, n=n, mix=mix):
                return dict(self=f.obj(PR), sys=mk_System(f, n, mix=mix))
            yield 'rank=%d,mix=%d (%s)' % (n, mi, '/'.join(mix[0]) + ';' + '/'.join(mix[1]) + ';' + '/'.join(mix[2])), build, {'post': _wiring_post}


# --------------------------------------------------------------------------- PRISM.cost  (C01, C03)

@contract('pyPRISM/core/PRISM.py::PRISM.cost', props=['C01', 'C02', 'C03', 'C04', 'C06', 'C12'])
def PRISM_cost(self, x):
    """One evaluation of the self-consistency map, written from the PRISM equation and the closure definitions:
       G = x/r (trial gamma);  c_ab = closure_ab(r, G_ab) for every pair;  C = to_fourier(c);
       rho_pair o H = (I - Omega C)^-1 (Omega C) Omega  at every wavenumber;  y = r (to_real(H - C) - G).
    Everything the function leaves on the object is a function of (x, sys, omega) only -- none of the stored arrays is
    read before it is overwritten -- so the state after any sequence of evaluations ending at x is that of cost(x)."""
    S = self.sys
    n = S.rank
    r = S.domain.r
    N = S.domain._length
    require(x.shape[0] == n * n * N)          # the solver hands over rank*rank*length unknowns
    self.x = x
    G = pointwise((x.shape[0] // (n * n), n, n), lambda l, a, b: x[(l * n + a) * n + b] / r[l])
    self.GammaIn.data = G
    self.directCorr.space = Space.Real
    c = [[None for j in range(n)] for i in range(n)]
    for i in range(n):
        for j in range(i, n):
            cl = S.closure.values[S.types[i]][S.types[j]]
            if isinstance(cl, AtomicClosure):
                c[i][j] = cl.calculate(r, self.GammaIn.data[:, i, j])
            elif isinstance(cl, MolecularClosure):
                raise NotImplementedError
            else:
                raise ValueError
            old = fresh_copy(self.directCorr.data)
            update(self.directCorr.data, lambda l, a, b: c[i][j][l] if ((a == i and b == j) or (a == j and b == i)) else old[l, a, b])
    S.domain.MatrixArray_to_fourier(self.directCorr)
    W = self.omega
    C = self.directCorr
    self.OC = W.dot(C)                                   # Omega C, per wavenumber
    one = self.I
    self.IOC = MatrixArray(length=one.length, rank=one.rank, space=one.space, types=one.types,
                           data=pointwise(one.data.shape, lambda l, a, b: one.data[l, a, b] - self.OC.data[l, a, b]))
    self.IOC.data = matinv(self.IOC.data)                # (I - Omega C)^-1
    self.totalCorr = self.IOC.dot(self.OC).dot(W)        # rho_pair o H
    pair = S.density.pair.data
    Hs = fresh_copy(self.totalCorr.data)
    update(self.totalCorr.data, lambda l, a, b: Hs[l, a, b] / pair[0, a, b])
    H = self.totalCorr
    self.GammaOut = MatrixArray(length=H.length, rank=H.rank, space=H.space, types=H.types,
                                data=pointwise(H.data.shape, lambda l, a, b: H.data[l, a, b] - C.data[l, a, b]))
    S.domain.MatrixArray_to_real(self.GammaOut)
    go = self.GammaOut.data
    self.y = pointwise(go.shape, lambda l, a, b: r[l] * (go[l, a, b] - G[l, a, b]))
    return self.y.reshape((-1,))


def mk_real_PRISM(f, n, mix):
    S = mk_System(f, n, mix=mix)
    return f.construct(PR, S)


COST_MIXES = {1: [(['PY'], ['HS'], ['SS']), (['HNC'], ['LJ'], ['G'])],
              2: [(['PYhc', 'HNC', 'MSA'], ['HS', 'LJ', 'EXP'], ['G', 'G', 'SS'])],
              3: [(['PY', 'HNC', 'MSA', 'PYhc', 'PY', 'HNC'], ['HS', 'LJ', 'EXP', 'HSs', 'HS', 'LJ'], ['SS', 'NI', 'G', 'G', 'NI', 'SS'])]}


@cases(PRISM_cost)
def _cost_cases():
    for n in (1, 2, 3):
        for mi, mix in enumerate(COST_MIXES[n]):
            def build(f, n=n, mix=mix):
                P = mk_real_PRISM(f, n, mix)
                N = f.getattr(f.getattr(f.getattr(P, 'sys'), 'domain'), '_length')
                return dict(self=P, x=f.array('x', (n * n * N,)))
            yield 'rank=%d,mix=%d, first evaluation' % (n, mi), build
    def build2(f):
        # a later evaluation: the object carries whatever an earlier evaluation at another trial vector left behind
        P = mk_real_PRISM(f, 2, COST_MIXES[2][0])
        N = f.getattr(f.getattr(f.getattr(P, 'sys'), 'domain'), '_length')
        f.call(P, 'cost', f.array('x_earlier', (4 * N,)))
        return dict(self=P, x=f.array('x', (4 * N,)))
    yield 'rank=2, after an earlier evaluation at another trial vector', build2

    def build_any(f):
        # an arbitrary later evaluation: the work arrays hold arbitrary data in arbitrary spaces (what earlier
        # evaluations, a solve -- which leaves totalCorr flagged Real -- or calculate.* calls left behind)
        P = mk_real_PRISM(f, 2, COST_MIXES[2][0])
        sysm = f.getattr(P, 'sys')
        N = f.getattr(f.getattr(sysm, 'domain'), '_length')
        types = f.getattr(sysm, 'types')
        for nm in ('totalCorr', 'directCorr', 'GammaIn', 'GammaOut', 'OC'):
            f.setattr(P, nm, mk_MA(f, 'old_' + nm, N, 2, space=f.enum_sym('old_' + nm + '_space', SP, members=('Real', 'Fourier')), types=types))
        return dict(self=P, x=f.array('x', (4 * N,)))
    yield 'rank=2, work arrays in arbitrary spaces with arbitrary contents (after a solve / calculate.* calls)', build_any

    def build3(f):
        # C12: a tabulated omega whose length differs from the domain's (a one-column file of the wrong length survives
        # PRISM.__init__): the first evaluation must raise, no correlation function is produced from mismatched data
        P = mk_real_PRISM(f, 2, COST_MIXES[2][0])
        N = f.getattr(f.getattr(f.getattr(P, 'sys'), 'domain'), '_length')
        Lw = f.int('Lw', lo=2)
        f.assume(f.Not(f.eq(Lw, N)))
        f.assume(N >= 2)
        W = mk_MA(f, 'Wbad', Lw, 2, space=f.enum(SP, 'Fourier'))
        f.setattr(P, 'omega', W)
        return dict(self=P, x=f.array('x', (4 * N,)))
    yield 'rank=2, omega of a length different from the domain', build3, {'post_body': lambda f, a, r: [('unreachable: evaluation with mismatched omega returned', False)]}


# --------------------------------------------------------------------------- PRISM.solve, System.createPRISM / solve

from scipy.optimize import root      # native meaning for the replay; symbolically the assumed contract in pyvc/models.py


@contract('pyPRISM/core/PRISM.py::PRISM.solve', props=['C01', 'C06', 'C16'])
def PRISM_solve(self, guess=None, method='krylov', options=None):
    """The object is left exactly as the last evaluation of cost -- at the returned root, by the assumed contract of
    scipy.optimize.root -- left it, except that totalCorr is transformed (once) to real space; the result record
    is stored and returned; nothing is post-processed, clipped or rescaled."""
    S = self.sys
    if guess is None:
        guess = pointwise(S.rank * S.rank * S.domain.length, lambda m: 0.0)
    if options is None:
        options = {'disp': True}
    self.minimize_result = root(self.cost, guess, method=method, options=options)
    if self.totalCorr.space == Space.Fourier:
        S.domain.MatrixArray_to_real(self.totalCorr)
    return self.minimize_result


def _solved_post(f, args, res):
    P = args['self']
    return [('totalCorr is in real space after solve', f.getattr(f.getattr(P, 'totalCorr'), 'space') == f.enum(SP, 'Real')),
            ('directCorr is left in Fourier space, as cost leaves it', f.getattr(f.getattr(P, 'directCorr'), 'space') == f.enum(SP, 'Fourier'))]


@cases(PRISM_solve)
def _solve_cases():
    for n, mix in ((1, COST_MIXES[1][0]), (2, COST_MIXES[2][0]), (3, COST_MIXES[3][0])):
        for g in ('none', 'given'):
            if n == 3 and g == 'given':
                continue        # rank 3: the lower/upper triangle of the final transform is only distinguishable from here on
            def build(f, n=n, mix=mix, g=g):
                P = mk_real_PRISM(f, n, mix)
                N = f.getattr(f.getattr(f.getattr(P, 'sys'), 'domain'), '_length')
                f.assume(N <= 6) if not f.symbolic else None          # replay: keep the real solver cheap
                return dict(self=P, guess=(f.array('guess', (n * n * N,)) if g == 'given' else None), method='krylov',
                            options={'disp': False, 'maxiter': 5})
            yield 'rank=%d,guess=%s' % (n, g), build, {'post': _solved_post}
    def build_re(f):
        # re-solve from the object's own solution (C06): the object was solved before
        P = mk_real_PRISM(f, 1, COST_MIXES[1][1])
        N = f.getattr(f.getattr(f.getattr(P, 'sys'), 'domain'), '_length')
        f.assume(N <= 6) if not f.symbolic else None
        f.call(P, 'solve', None, 'krylov', {'disp': False, 'maxiter': 3})
        return dict(self=P, guess=f.getattr(P, 'x'), method='krylov', options={'disp': False, 'maxiter': 3})
    yield 'rank=1, re-solve from the object\'s own x', build_re, {'post': _solved_post}


@contract('pyPRISM/core/System.py::System.createPRISM', props=['C16'])
def System_createPRISM(self):
    from pyPRISM.core.PRISM import PRISM
    self.check()                    # its ValueError escapes: no PRISM object is built from a partial system
    return PRISM(self)


@cases(System_createPRISM)
def _create_cases():
    def build_partial(f):
        S = mk_System(f, 2, complete=False)
        f.assume(something_missing(f, S))
        return dict(self=S)
    yield 'types=2, any non-empty subset of the specifications missing', build_partial
    for n in (1, 2):
        def build(f, n=n):
            return dict(self=mk_System(f, n, mix=MIXES[n][0]))
        yield 'types=%d, fully specified' % n, build


@contract('pyPRISM/core/System.py::System.solve', props=['C16'])
def System_solve(self, *args, **kwargs):
    from pyPRISM.core.PRISM import PRISM
    self.check()                    # before anything else: no root() call on a partial system
    p = PRISM(self)
    p.solve(*args, **kwargs)
    return p


@cases(System_solve)
def _sys_solve_cases():
    def build_partial(f):
        S = mk_System(f, 2, complete=False)
        f.assume(something_missing(f, S))
        return dict(self=S)
    yield 'types=2, any non-empty subset of the specifications missing', build_partial
    def build(f):
        S = mk_System(f, 1, mix=MIXES[1][0])
        N = f.getattr(f.getattr(S, 'domain'), '_length')
        f.assume(N <= 6) if not f.symbolic else None
        return dict(self=S, kwargs={'method': 'krylov', 'options': {'disp': False, 'maxiter': 3}})
    yield 'types=1, fully specified', build
