#!/usr/bin/env python3
"""Regenerates /verif/MANIFEST.json from pyvc/props.py (single source for levels / techniques)."""
import json, os, sys
V = os.path.dirname(os.path.dirname(os.path.abspath(__file__)))
sys.path.insert(0, V)
from pyvc.props import PROPS, NOT_APPLICABLE
checks = []
for pid in sorted(PROPS):
    m = PROPS[pid]
    if not m.get('registered', True):
        continue
    checks.append({
        'property_id': pid,
        'quick_cmd': './check %s --tier quick' % pid,
        'thorough_cmd': './check %s --tier thorough' % pid,
        'evidence_file': 'evidence/%s.json' % pid,
        'replay_cmd_template': './check --replay {path}',
        'engine': 'pyvc',
        'level_claimed': {'category': m['level'], 'text': m['explanation'], 'design_ref': 'DESIGN.md section 4 (%s)' % pid},
        'level_note': '; '.join(m.get('assumptions', [])),
        'technique': m['technique'],
    })
man = {
    'version': 1,
    'setup_cmd': './setup.sh',
    'hooks': {
        'guard': 'PYPRISM_VERIF',
        'enable': 'no hooks: contracts are sidecar files under /verif/contracts and the engine reads /repo\'s source on every run; the guard variable is unused',
        'baseline_off_cmd': 'cd /repo && /venv/bin/python -m pytest -ra -q -p no:cacheprovider --timeout=900 --continue-on-collection-errors',
        'source_commits': [],
        'add_only': True,
    },
    'engines': [{'name': 'pyvc', 'path': 'pyvc/', 'serves_properties': sorted(p for p in PROPS if PROPS[p].get('registered', True)),
                 'kind_free_text': 'contract-based deductive verifier for a Python/numpy subset: symbolic executor over the real ast, refinement against sidecar contracts, z3/cvc5 discharge, concrete replay on the real code'}],
    'checks': checks,
    'notes': 'All checks: exit 0 held / 1 violation (VIOLATION line) / 2 undecided / 3 checker error. REPO=<dir> overrides /repo. See DESIGN.md.',
    'not_applicable': [{'property_id': k, 'reason': v} for k, v in sorted(NOT_APPLICABLE.items())],
}
json.dump(man, open(os.path.join(V, 'MANIFEST.json'), 'w'), indent=1)
print('MANIFEST.json: %d checks, %d not applicable' % (len(checks), len(man['not_applicable'])))
