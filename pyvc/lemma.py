"""Contexts handed to spec-level lemmas and bounded stand-ins."""
import os
import time
import z3
from . import run


class LemmaCtx(object):
    def __init__(self, name, tier, seed):
        self.name = name
        self.tier = tier
        self.seed = seed
        self.obligations = []
        self.solver_s = 0.0
        self.repo = run.REPO
        self.verif = run.VERIF

    def record(self, name, status, backend, secs=0.0, detail='', witness=None):
        self.obligations.append({'name': name, 'status': status, 'backend': backend, 'secs': round(secs, 4),
                                 'vcs': 1, 'detail': detail, 'witness': witness})

    def prove(self, name, goal, assumptions=(), timeout_ms=20000, expect_refutable=False):
        """z3 (then cvc5) validity check of  /\\ assumptions ==> goal."""
        from .verify import smt_check
        st, model, dt, be = smt_check(list(assumptions), goal, timeout_ms)
        self.solver_s += dt
        w = None
        if model is not None:
            w = {str(d): str(model[d]) for d in model.decls()[:40]}
        self.record(name, st, be, dt, detail='' if st == 'proved' else str(goal)[:1500], witness=w)
        return st == 'proved'

    def expect_unprovable(self, name, goal, assumptions=(), timeout_ms=3000):
        """Vacuity / engine canary: a false variant of a lemma must NOT be provable from the same assumptions
        (inconsistent axioms or a prover that proves everything would pass it).  A provable canary is a checker error."""
        from .verify import smt_check
        st, model, dt, be = smt_check(list(assumptions), goal, timeout_ms)
        self.solver_s += dt
        if st == 'proved':
            raise RuntimeError('vacuity canary %r was provable: the lemma\'s assumptions are inconsistent' % name)
        self.record(name, 'proved', 'canary(%s:%s)' % (be, st), dt)
        return True

    def check(self, name, ok, detail='', backend='syntactic', witness=None):
        """A decided (non-SMT) obligation, e.g. a syntactic property of the AST or a sympy identity."""
        self.record(name, 'proved' if ok else 'refuted', backend, 0.0, detail if not ok else '', witness)
        return ok

    def undecided(self, name, detail, backend='sympy'):
        self.record(name, 'unknown', backend, 0.0, detail)


class StandinCtx(object):
    def __init__(self, name, tier, seed):
        self.name = name
        self.tier = tier
        self.seed = seed
        self.bounds = ''
        self.cases = 0
        self.failures = []
        self.note = ''
        self.repo = run.REPO

    def case(self, ok, ident, detail=None):
        self.cases += 1
        if not ok:
            self.failures.append({'id': ident, 'detail': detail})
