"""Contracts for pyPRISM/core/MatrixArray.py and IdentityMatrixArray.py  (property C13; callee
contracts for C01, C05, C06, C07, C15, C16).

Representation invariant wf(M): M.data.shape == (M.length, M.rank, M.rank), M.types is a list of
M.rank distinct labels, M.typeMap is its inverse.  Established by the constructor contract,
assumed (built) in every other case.
"""
from pyvc.api import *
from pyPRISM.core.MatrixArray import MatrixArray
from pyPRISM.core.Space import Space

MA = 'pyPRISM.core.MatrixArray:MatrixArray'
IMA = 'pyPRISM.core.IdentityMatrixArray:IdentityMatrixArray'
SP = 'pyPRISM.core.Space:Space'
LABELS = ['C', 'A', 'D', 'B', 'E']      # deliberately not in alphabetical order (the default types, 'ABC…', are)
import os as _os
_THOROUGH = _os.environ.get('PYVC_TIER') == 'thorough'      # the thorough tier adds rank / type-list size 4
RANKS_QUICK = (1, 2, 3, 4) if _THOROUGH else (1, 2, 3)


def mk_MA(f, name, L, n, space=None, types=None, cls=MA):
    data = f.array(name + '_data', (L, n, n))
    if types is None:
        types = list(LABELS[:n])
    if space is None:
        space = f.enum_sym(name + '_space', SP)
    return f.make(cls, kwargs=dict(length=1, rank=n), data=data, rank=n, length=L, types=types,
                  typeMap=dict((t, i) for i, t in enumerate(types)), space=space)


def _spaces_compatible(a, b):
    return a.space == b.space or a.space == Space.NonSpatial or b.space == Space.NonSpatial


# --------------------------------------------------------------------------- constructor

@contract('pyPRISM/core/MatrixArray.py::MatrixArray.__init__', props=['C13', 'C04', 'C07'])
def MatrixArray_init(self, length, rank, data=None, space=Space.Real, types=None):
    if data is None:
        self.data = pointwise((length, rank, rank), lambda l, i, j: 0.0)
        self.rank = rank
        self.length = length
    else:
        if len(data.shape) != 3:
            raise AssertionError
        if data.shape[1] != data.shape[2]:
            raise AssertionError
        self.data = data                      # the argument is aliased, not copied (pmf relies on it)
        self.rank = data.shape[1]
        self.length = data.shape[0]
    if types is None:
        self.types = list('ABCDEFGHIJKLMNOPQRSTUVWXYZ'[:self.rank])
    else:
        if len(types) != self.rank:
            raise AssertionError
        self.types = types
    self.typeMap = dict([(t, i) for i, t in enumerate(self.types)])
    self.space = space


@cases(MatrixArray_init)
def _init_cases():
    for n in RANKS_QUICK + (4, 5):
        for dk in ('none', 'LxNxN', '2-D', 'non-square'):
            for tk in ('none', 'list', 'short-list'):
                if n > 3 and (dk in ('2-D', 'non-square') or tk == 'short-list'):
                    continue
                def build(f, n=n, dk=dk, tk=tk):
                    L = f.int('L', lo=0)
                    L2 = f.int('L2', lo=0)
                    if dk == 'none':
                        data = None
                    elif dk == 'LxNxN':
                        data = f.array('data', (L2, n, n))
                    elif dk == '2-D':
                        data = f.array('data', (L2, n))
                    else:
                        data = f.array('data', (L2, n, n + 1))
                    types = None if tk == 'none' else (list(LABELS[:n]) if tk == 'list' else list(LABELS[:n - 1]))
                    return dict(self=f.obj(MA), length=L, rank=n, data=data, space=f.enum_sym('space', SP), types=types)
                yield 'rank=%d,data=%s,types=%s' % (n, dk, tk), build
    for n in (2, 3):
        for how in ('reversed', 'same'):
            def build3(f, n=n, how=how):
                # the same set of type names was used before, by another array, in another order
                L = f.int('L', lo=0)
                ts = list(LABELS[:n])
                first = f.construct(MA, L, n, types=(ts[::-1] if how == 'reversed' else list(ts)))
                return dict(self=f.obj(MA), length=L, rank=n, data=None, space=f.enum_sym('space', SP), types=ts, _earlier=first)
            yield 'rank=%d,after another array with the %s type list' % (n, how), build3


@contract('pyPRISM/core/IdentityMatrixArray.py::IdentityMatrixArray.__init__', props=['C13'])
def IdentityMatrixArray_init(self, length, rank, data=None, space=None, types=None):
    self.rank = rank
    self.length = length
    if types is None:
        self.types = list('ABCDEFGHIJKLMNOPQRSTUVWXYZ'[:rank])
    else:
        if len(types) != rank:
            raise AssertionError
        self.types = types
    self.typeMap = dict([(t, i) for i, t in enumerate(self.types)])
    self.space = space
    self.data = pointwise((length, rank, rank), lambda l, i, j: 1.0 if i == j else 0.0)


@cases(IdentityMatrixArray_init)
def _iinit_cases():
    for n in RANKS_QUICK + (4, 5):
        for tk in ('none', 'list'):
            def build(f, n=n, tk=tk):
                L = f.int('L', lo=0)
                types = None if tk == 'none' else list(LABELS[:n])
                return dict(self=f.obj(IMA), length=L, rank=n, space=f.enum_sym('space', SP), types=types)
            yield 'rank=%d,types=%s' % (n, tk), build
    for n in RANKS_QUICK:
        def build2(f, n=n):
            # a second identity of the same shape, built after the first one was modified in place
            L = f.int('L', lo=1)
            first = f.construct(IMA, L, n, types=list(LABELS[:n]))
            f.call(first, '__imul__', f.real('c'))
            return dict(self=f.obj(IMA), length=L, rank=n, space=f.enum_sym('space', SP), types=list(LABELS[:n]), _earlier=first)
        yield 'rank=%d,after an earlier identity of the same shape was scaled in place' % n, build2


# --------------------------------------------------------------------------- element access

@contract('pyPRISM/core/MatrixArray.py::MatrixArray.__setitem__', props=['C13', 'C15', 'C07', 'C04'])
def MatrixArray_setitem(self, key, val):
    type1, type2 = key
    if type1 not in self.typeMap:
        raise ValueError
    if type2 not in self.typeMap:
        raise ValueError
    i1 = self.typeMap[type1]
    i2 = self.typeMap[type2]
    v = broadcast_to(val, (self.length,))
    old = fresh_copy(self.data)
    # whole-view postcondition: both (a,b) and (b,a) are written, nothing else changes
    update(self.data, lambda l, a, b: v[l] if ((a == i1 and b == i2) or (a == i2 and b == i1)) else old[l, a, b])


@cases(MatrixArray_setitem)
def _setitem_cases():
    for n in RANKS_QUICK:
        keys = [(LABELS[i], LABELS[j]) for i in range(n) for j in range(n)] + [('Z', LABELS[0]), (LABELS[0], 'Z')]
        for key in keys:
            for vk in ('array', 'scalar', 'list1', 'array-other-length'):
                if vk != 'array' and key not in ((LABELS[0], LABELS[n - 1]), (LABELS[n - 1], LABELS[0])):
                    continue
                def build(f, n=n, key=key, vk=vk):
                    L = f.int('L', lo=1)
                    M = mk_MA(f, 'M', L, n)
                    if vk == 'array':
                        val = f.array('val', (L,))
                    elif vk == 'scalar':
                        val = f.real('val')
                    elif vk == 'list1':
                        val = [f.real('val')]
                    else:
                        val = f.array('val', (f.int('Lv', lo=0),))
                    return dict(self=M, key=key, val=val)
                yield 'rank=%d,key=%s-%s,val=%s' % (n, key[0], key[1], vk), build


@contract('pyPRISM/core/MatrixArray.py::MatrixArray.__getitem__', props=['C13', 'C04'])
def MatrixArray_getitem(self, key):
    type1, type2 = key
    if type1 not in self.typeMap:
        raise ValueError
    if type2 not in self.typeMap:
        raise ValueError
    return self.data[:, self.typeMap[type1], self.typeMap[type2]]     # a view, not a copy


@cases(MatrixArray_getitem)
def _getitem_cases():
    for n in RANKS_QUICK:
        keys = [(LABELS[i], LABELS[j]) for i in range(n) for j in range(n)] + [('Z', LABELS[0]), (LABELS[0], 'Z')]
        for key in keys:
            def build(f, n=n, key=key):
                return dict(self=mk_MA(f, 'M', f.int('L', lo=0), n), key=key)
            yield 'rank=%d,key=%s-%s' % (n, key[0], key[1]), build


@contract('pyPRISM/core/MatrixArray.py::MatrixArray.get', props=['C13'])
def MatrixArray_get(self, index1, index2):
    if not index1 < self.rank:
        raise AssertionError
    if not index2 < self.rank:
        raise AssertionError
    return self.data[:, index1, index2]


@cases(MatrixArray_get)
def _get_cases():
    for n in RANKS_QUICK:
        for i in range(n + 1):
            for j in range(n + 1):
                def build(f, n=n, i=i, j=j):
                    return dict(self=mk_MA(f, 'M', f.int('L', lo=0), n), index1=i, index2=j)
                yield 'rank=%d,%d,%d' % (n, i, j), build


@contract('pyPRISM/core/MatrixArray.py::MatrixArray.iterpairs', props=['C13', 'C07'])
def MatrixArray_iterpairs(self):
    for i in range(self.rank):
        for j in range(self.rank):
            if i <= j:
                yield (i, j), (self.types[i], self.types[j]), self.data[:, i, j]


@cases(MatrixArray_iterpairs)
def _iterpairs_cases():
    for n in RANKS_QUICK + (4, 5):
        def build(f, n=n):
            return dict(self=mk_MA(f, 'M', f.int('L', lo=0), n))
        yield 'rank=%d' % n, build


@contract('pyPRISM/core/MatrixArray.py::MatrixArray.get_copy', props=['C13'])
def MatrixArray_get_copy(self):
    return MatrixArray(length=self.length, rank=self.rank, data=fresh_copy(self.data), space=self.space, types=self.types)


@cases(MatrixArray_get_copy)
def _get_copy_cases():
    for n in RANKS_QUICK:
        def build(f, n=n):
            return dict(self=mk_MA(f, 'M', f.int('L', lo=0), n))
        yield 'rank=%d' % n, build


# --------------------------------------------------------------------------- elementwise arithmetic

def _out_of_place(self, other, op):
    if isinstance(other, MatrixArray):
        if not _spaces_compatible(self, other):
            raise AssertionError
        data = elementwise(op, self.data, other.data)
    else:
        data = elementwise(op, self.data, other)
    return MatrixArray(length=self.length, rank=self.rank, data=data, space=self.space, types=self.types)


def _in_place(self, other, op):
    if isinstance(other, MatrixArray):
        if not _spaces_compatible(self, other):
            raise AssertionError
        inplace_elementwise(op, self.data, other.data)
    else:
        inplace_elementwise(op, self.data, other)
    return self


@contract('pyPRISM/core/MatrixArray.py::MatrixArray.__add__', props=['C13'])
def MatrixArray_add(self, other):
    return _out_of_place(self, other, lambda x, y: x + y)


@contract('pyPRISM/core/MatrixArray.py::MatrixArray.__sub__', props=['C13'])
def MatrixArray_sub(self, other):
    return _out_of_place(self, other, lambda x, y: x - y)


@contract('pyPRISM/core/MatrixArray.py::MatrixArray.__mul__', props=['C13'])
def MatrixArray_mul(self, other):
    return _out_of_place(self, other, lambda x, y: x * y)


@contract('pyPRISM/core/MatrixArray.py::MatrixArray.__truediv__', props=['C13'])
def MatrixArray_truediv(self, other):
    return _out_of_place(self, other, lambda x, y: x / y)


@contract('pyPRISM/core/MatrixArray.py::MatrixArray.__div__', props=['C13'])
def MatrixArray_div(self, other):
    return _out_of_place(self, other, lambda x, y: x / y)


@contract('pyPRISM/core/MatrixArray.py::MatrixArray.__iadd__', props=['C13'])
def MatrixArray_iadd(self, other):
    return _in_place(self, other, lambda x, y: x + y)


@contract('pyPRISM/core/MatrixArray.py::MatrixArray.__isub__', props=['C13'])
def MatrixArray_isub(self, other):
    return _in_place(self, other, lambda x, y: x - y)


@contract('pyPRISM/core/MatrixArray.py::MatrixArray.__imul__', props=['C13'])
def MatrixArray_imul(self, other):
    return _in_place(self, other, lambda x, y: x * y)


@contract('pyPRISM/core/MatrixArray.py::MatrixArray.__itruediv__', props=['C13'])
def MatrixArray_itruediv(self, other):
    return _in_place(self, other, lambda x, y: x / y)


@contract('pyPRISM/core/MatrixArray.py::MatrixArray.__idiv__', props=['C13'])
def MatrixArray_idiv(self, other):
    return _in_place(self, other, lambda x, y: x / y)


def _arith_cases():
    for n in RANKS_QUICK:
        for ok in ('MatrixArray', 'scalar', 'ndarray(L,1,1)', 'ndarray(L,n,n)', 'ndarray(n,n)'):
            def build(f, n=n, ok=ok):
                Ls = f.int('Ls', lo=1)
                M = mk_MA(f, 'M', Ls, n)
                if ok == 'MatrixArray':
                    other = mk_MA(f, 'O', f.int('Lo', lo=1), n)     # any length: equal, 1 (density arrays) or incompatible
                elif ok == 'scalar':
                    other = f.real('c')
                elif ok == 'ndarray(L,1,1)':
                    other = f.array('o', (f.int('Lo', lo=1), 1, 1))
                elif ok == 'ndarray(L,n,n)':
                    other = f.array('o', (f.int('Lo', lo=1), n, n))
                else:
                    other = f.array('o', (n, n))
                return dict(self=M, other=other)
            yield 'rank=%d,other=%s' % (n, ok), build


for _spec in (MatrixArray_add, MatrixArray_sub, MatrixArray_mul, MatrixArray_truediv, MatrixArray_div,
              MatrixArray_iadd, MatrixArray_isub, MatrixArray_imul, MatrixArray_itruediv, MatrixArray_idiv):
    cases(_spec)(_arith_cases)


# --------------------------------------------------------------------------- per-matrix linear algebra

def _matmul(a, b, n):
    """Per-wavenumber matrix product, written out: (a b)[l,i,k] = sum_j a[l,i,j] b[l,j,k]."""
    La = a.shape[0]
    Lb = b.shape[0]
    if La == Lb:
        return pointwise((La, n, n), lambda l, i, k: sum([a[l, i, j] * b[l, j, k] for j in range(n)]))
    if Lb == 1:
        return pointwise((La, n, n), lambda l, i, k: sum([a[l, i, j] * b[0, j, k] for j in range(n)]))
    if La == 1:
        return pointwise((Lb, n, n), lambda l, i, k: sum([a[0, i, j] * b[l, j, k] for j in range(n)]))
    raise ValueError      # einsum refuses operands whose l-extents differ (C12 relies on this)


@contract('pyPRISM/core/MatrixArray.py::MatrixArray.dot', props=['C13', 'C12'])
def MatrixArray_dot(self, other, inplace=False):
    if isinstance(other, MatrixArray):
        if not _spaces_compatible(self, other):
            raise AssertionError
    prod = _matmul(self.data, other.data, self.rank)
    if inplace:
        self.data = prod              # rebinding: the old array object is left untouched
        return self
    return MatrixArray(length=self.length, rank=self.rank, data=prod, space=self.space, types=self.types)


@cases(MatrixArray_dot)
def _dot_cases():
    for n in RANKS_QUICK:
        for inplace in (False, True):
            def build(f, n=n, inplace=inplace):
                M = mk_MA(f, 'M', f.int('Ls', lo=1), n)
                O = mk_MA(f, 'O', f.int('Lo', lo=1), n)
                return dict(self=M, other=O, inplace=inplace)
            yield 'rank=%d,inplace=%s' % (n, inplace), build


def _identity_post(f, args, res):
    data = f.getattr(res, 'data')
    n = data.shape[1]
    return [('A.dot(A.invert())[l,%d,%d] == %d' % (a, b, int(a == b)),
             f.forall(data.shape[0], lambda l, a=a, b=b: f.eq(f.elem(data, (l, a, b)), 1.0 if a == b else 0.0)))
            for a in range(n) for b in range(n)]


@cases(MatrixArray_dot)
def _dot_inverse_cases():
    for n in (1, 2):
        for inplace in (False, True):
            def build(f, n=n, inplace=inplace):
                M = mk_MA(f, 'M', f.int('L', lo=1), n)
                inv = f.call(M, 'invert')
                return dict(self=M, other=inv, inplace=inplace)
            yield 'rank=%d,inplace=%s, other = self.invert()' % (n, inplace), build, {'post': _identity_post}


@contract('pyPRISM/core/MatrixArray.py::MatrixArray.__matmul__', props=['C13'])
def MatrixArray_matmul(self, other):
    if not _spaces_compatible(self, other):
        raise AssertionError
    return self.dot(other, inplace=False)


@contract('pyPRISM/core/MatrixArray.py::MatrixArray.__imatmul__', props=['C13'])
def MatrixArray_imatmul(self, other):
    if not _spaces_compatible(self, other):
        raise AssertionError
    return self.dot(other, inplace=True)


def _mm_cases():
    for n in RANKS_QUICK:
        def build(f, n=n):
            return dict(self=mk_MA(f, 'M', f.int('Ls', lo=1), n), other=mk_MA(f, 'O', f.int('Lo', lo=1), n))
        yield 'rank=%d' % n, build


cases(MatrixArray_matmul)(_mm_cases)
cases(MatrixArray_imatmul)(_mm_cases)


@contract('pyPRISM/core/MatrixArray.py::MatrixArray.invert', props=['C13'])
def MatrixArray_invert(self, inplace=False):
    inv = matinv(self.data)       # assumed contract of np.linalg.inv: inv_l . A_l == A_l . inv_l == I
    if inplace:
        self.data = inv
        return self
    return MatrixArray(rank=self.rank, length=self.length, data=inv, space=self.space, types=self.types)


@cases(MatrixArray_invert)
def _invert_cases():
    for n in RANKS_QUICK:
        for inplace in (False, True):
            def build(f, n=n, inplace=inplace):
                return dict(self=mk_MA(f, 'M', f.int('L', lo=1), n), inplace=inplace)
            yield 'rank=%d,inplace=%s' % (n, inplace), build
    for n in RANKS_QUICK[:2]:
        for how in ('scaled in place', 'one pair re-assigned'):
            def build_h(f, n=n, how=how):
                # the same array was inverted (out of place) before and its contents were then edited in place: the
                # result must be the inverse of the *current* contents
                M = mk_MA(f, 'M', f.int('L', lo=1), n)
                f.call(M, 'invert')
                if how == 'scaled in place':
                    f.call(M, '__imul__', f.real('h_c', pos=True))
                else:
                    f.call(M, '__setitem__', (LABELS[0], LABELS[n - 1]), f.array('h_v', (f.getattr(M, 'length'),)))
                return dict(self=M, inplace=False)
            yield 'rank=%d, after an earlier invert() and data %s' % (n, how), build_h
