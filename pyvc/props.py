"""Per-property metadata used in evidence files and MANIFEST.json (level, technique, explanation, assumptions)."""

A_FP = 'A1: Python/numpy floats are treated as mathematical reals (rounding, overflow, nan invisible to the proofs)'
A_INT = 'A2: Python ints are mathematical integers (exact)'
A_ASSERT = 'A3: assert statements execute (interpreter not run with -O)'
A_NUMPY = 'A4: numpy axiomatisation of elementwise ops, broadcasting, views vs copies, masked stores, zeros/ones/copy/where/reshape (cross-checked by the concrete differential replay on the real numpy)'
A_TYPES = 'A7: type lists hold pairwise distinct hashable labels and are not mutated after a table is built'
A_RANK = 'ranks / type-list lengths are unrolled (1..4, matching the bound the property quotes); array lengths, grid sizes and all numeric values are symbolic and unbounded'
A_EXT = 'A5: assumed (unverified) contracts on external functions: %s'
A_TRANS = 'exp/log/sin/sqrt are uninterpreted functions with only: exp>0, sqrt(x)>=0 and sqrt(x)^2=x for x>=0; pi is a real constant with 3.14159<pi<3.1416'

TECH = 'contract refinement proof: symbolic execution of the real function bodies (ast -> z3) against sidecar spec functions and postconditions, SMT-discharged (z3, cvc5); counter-models replayed on the real code'

PROPS = {
    'C03': {
        'level': 'proof',
        'technique': TECH,
        'explanation': 'Closure bodies: on the code\'s own post-state, value[i]+gamma[i]==-1 wherever r[i]<=sigma for every flagged closure, every gamma/r/sigma/length (generic index). Hard-core potentials (HardSphere, HardCoreLennardJones, Exponential) are refined against specs with u[i]==high_value for r[i]<=sigma. PY/HNC without the flag: lemma over the C09 spec functions with the IEEE underflow instance exp(x)=0 for x<=-745.2. g = residual/r inside the core: lemma over the contract of PRISM.cost.',
        'assumptions': [A_FP, A_ASSERT, A_NUMPY, 'IEEE underflow fact used only in the no-flag lemma: x <= -745.2 => exp(x) == 0 (libm); in that lemma exp>0 is not assumed'],
    },
    'C07': {
        'level': 'proof',
        'technique': TECH + '; class invariant wf(Domain) established by the constructor and preserved by every setter (induction over setter histories)',
        'explanation': 'Domain.__init__/build_grid/dr,dk,length setters are refined against specs and shown to establish/preserve wf(D): len(r)=len(k)=length, r_i=(i+1)dr, k_j=(j+1)dk, dr*dk*length=pi, DST coefficient arrays, long_r; after every setter the domain equals Domain(length,dr) field by field. to_fourier/to_real are refined against the DST-II/III formulas; the MatrixArray versions transform every pair function a<=b from the old data, write both triangles, flip the flag, and raise ValueError iff already in the target space. Round trip and linearity: lemmas over those contracts under wf(D) and the assumed DST inverse pair.',
        'assumptions': [A_FP, A_INT, A_NUMPY, A_RANK, A_EXT % 'scipy.fftpack.dst types 2/3 are the defining sine sums, linear, and dst3(dst2(x)) = 2N x (bounded run-time check only)', A_TRANS],
    },
    'C09': {
        'level': 'proof',
        'technique': TECH,
        'explanation': 'Each closure calculate() body is symbolically executed from the current source and shown equal, for every gamma/u/r/sigma and every array length, to the pointwise spec F(gamma_i,u_i) / -1-gamma_i taken from the property statement (return value, stored value, frame: inputs unmodified, raised exceptions); elementwise by construction of the pointwise terms; Taylor (c=-u+O(2)) and alias clauses are lemmas over those specs and the class definitions.',
        'assumptions': [A_FP, A_ASSERT, A_NUMPY, A_TRANS, 'r and gamma have the same length (call sites pass the domain grid)'],
    },
    'C10': {
        'level': 'proof',
        'technique': TECH,
        'explanation': 'Each potential calculate() body (pre-state produced by running the real constructor symbolically, so the captured lambda is the shipped one) is refined against the documented u(r) for all parameters, grids and lengths: core/tail split at sigma, LJ cut/shift paths, WCA with c^6=2; frame (r unmodified), repeatability (re-evaluation after re-assignment of sigma/rcut/shift). Sigma defaulting: Diameter contracts + PRISM.__init__. Contact clause decided in reals against the tolerance literal of System.check.',
        'assumptions': [A_FP, A_ASSERT, A_NUMPY, A_TRANS, 'A6: direct mutation of epsilon/alpha/high_value captured by the constructor lambda is outside the public API considered'],
    },
    'C11': {
        'level': 'other',
        'technique': TECH + '; inductive lemmas (closed form == pair sum) by z3; floating-point behaviour, quadrature and Koyama moments only by a bounded stand-in',
        'explanation': 'Gaussian/FJC calculate() refined against closed(E,N) for symbolic integer N; GaussianRing against the sum over separations (unrolled N<=6 plus loop-invariant form); SingleSite/NoIntra constant; DiscreteKoyama.calculate pair counting (each separation n visited N-n times) and constructor rejections. Lemmas: closed form == (1/N) sum_ij E^|i-j| (induction step as polynomial identity), limits k->0 (N), k->inf (1), bound <= N for |E|<=1. Out of reach and bounded only: NFJC quadrature, Koyama kernel formulas, IEEE cancellation at small k.',
        'assumptions': [A_FP, A_INT, A_NUMPY, A_TRANS, 'DiscreteKoyama.koyama_kernel_fourier / kernel_base / cos averages are opaque trusted helpers (no independent spec exists)', 'NonOverlappingFreelyJointedChain.calculate (fixed-grid quadrature) is outside the verified subset: bounded stand-in only'],
    },
    'C12': {
        'level': 'proof',
        'technique': TECH,
        'explanation': 'FromArray/FromFile constructors and calculate() refined against specs: stored value is a fresh copy of the caller\'s array; calculate raises AssertionError iff length or k column mismatch (allclose as assumed predicate), otherwise returns the stored data verbatim; PairTable.exportToMatrixArray raises ValueError iff pair lengths differ; MatrixArray.dot raises on unequal lengths (assumed einsum rule), so a wrong-length one-column file cannot survive the first cost evaluation.',
        'assumptions': [A_FP, A_ASSERT, A_NUMPY, A_RANK, A_EXT % 'np.loadtxt shapes (2-D for two columns, 1-D for one column, 0-d for one number), np.allclose as an uninterpreted predicate, np.einsum length rule'],
    },
    'C13': {
        'level': 'proof',
        'technique': TECH,
        'explanation': 'Every MatrixArray method and IdentityMatrixArray.__init__ refined against whole-view specs: constructor (zeros / aliasing the given data, asserts), __setitem__ writes both (a,b) and (b,a) and nothing else, __getitem__/get return views, ValueError on unknown types, + - * / and in-place forms with MatrixArray / scalar / broadcastable ndarray operands (result fresh vs. in place: storage tokens), space rule over all 9 flag pairs, dot/@/@=/invert against assumed einsum/inv contracts, get_copy fresh.',
        'assumptions': [A_FP, A_ASSERT, A_NUMPY, A_RANK, A_EXT % 'np.einsum("lij,ljk") is the per-l matrix product, np.linalg.inv(A) is a two-sided inverse of A'],
    },
    'C14': {
        'level': 'proof',
        'technique': TECH + '; whole-view postconditions give the map semantics for every history by induction',
        'explanation': 'Table.listify and every PairTable/ValueTable method refined against keyed-map specs for type lists of 1..4 distinct labels: __setitem__ with single keys and lists stores an independent deep copy per pair (alias structure compared), both orientations, nothing else changed; __getitem__, __iter__, iterpairs for the three flag combinations in type-list order, check raises ValueError iff some entry is None, setUnset fills exactly the unset entries, apply in/out of place, exportToMatrixArray.',
        'assumptions': [A_TYPES, A_RANK, A_EXT % 'copy.deepcopy returns a structurally equal object graph disjoint from the original', A_NUMPY],
    },
    'C15': {
        'level': 'proof',
        'technique': TECH + '; representation invariants as postconditions of constructor and __setitem__ (induction over assignment histories)',
        'explanation': 'Density/Diameter __init__, __setitem__ (single type or list, any subset already assigned, re-assignment), __getitem__, check refined against specs and shown to re-establish Inv_rho (pair=rho_a rho_b, site diag rho_a / off-diag rho_a+rho_b, total=sum) and Inv_d (sigma=(d_a+d_b)/2, volume=pi d^3/6) for every assigned subset.',
        'assumptions': [A_FP, A_TYPES, A_RANK, A_NUMPY],
    },
}

NOT_APPLICABLE = {
    'C18': 'Debyer is a Cython/OpenMP extension that is not built and cannot be built here (np.int removed from the pinned numpy); no running code to bind a contract to, and the property is about thread schedules and reduction order, on which contract-based deductive verification is silent',
    # provisional while their contracts are being built (moved to checks as they land):
    'C01': 'contracts for PRISM.cost/solve under construction in this tree; not yet claimed',
    'C02': 'numerical agreement with Wertheim-Thiele / discretisation error under refinement is not expressible as a contract on these functions; dilute-limit lemmas under construction; not yet claimed',
    'C04': 'relational lemmas over the PRISM.cost contract under construction; not yet claimed',
    'C05': 'contracts for calculate/* under construction; not yet claimed',
    'C06': 'contracts for calculate/* under construction; not yet claimed',
    'C08': 'prefactor identities under construction; not yet claimed',
    'C16': 'contracts for System/PRISM.__init__ under construction; not yet claimed',
    'C17': 'quantity-algebra contracts under construction; not yet claimed',
}

for _p in ('C01', 'C02', 'C04', 'C05', 'C06', 'C08', 'C16', 'C17'):
    PROPS.setdefault(_p, {'level': 'proof', 'technique': TECH, 'explanation': 'under construction', 'assumptions': [A_FP, A_ASSERT, A_NUMPY], 'registered': False})
