#!/bin/sh
# tools/harmless_one.sh <id> [props...]: apply one harmless refactoring, run the checks, undo; prints one line per property
export PYVC_EVIDENCE_DIR=${PYVC_EVIDENCE_DIR:-/tmp/pyvc_evidence_scratch}   # runs on modified trees never overwrite /verif/evidence
ID=$1; shift
PROPS=${*:-"C01 C02 C03 C04 C05 C06 C07 C08 C09 C10 C11 C12 C13 C14 C15 C16 C17"}
[ -z "$(git -C /repo status --porcelain --untracked-files=no)" ] || { echo "/repo not clean"; exit 3; }
git -C /repo apply /verif/harmless/$ID/patch.diff 2>/dev/null || { echo "$ID: patch failed"; exit 3; }
for p in $PROPS; do
  /verif/check $p > /tmp/harm1_$p.log 2>&1; rc=$?
  echo "$ID $p exit=$rc $(tail -1 /tmp/harm1_$p.log | cut -c1-160)"
done
git -C /repo checkout -- .
