#!/bin/sh
# usage: seed_confirm.sh <outdir-name> <seed-id>    e.g. seed_confirm.sh C05 C05-chi-total-density
# Confirms a seeded change independently in a fresh scratch worktree: demo passes without / fails with the patch,
# the repository's test-suite passes with the patch.  Then stores it under /verif/seeded/<seed-id>/.
set -u
SRC=/tmp/seed/out/$1; ID=$2
WT=$(mktemp -d /tmp/seedconfirm.XXXXXX)
git -C /repo worktree add -q --detach "$WT/wt" HEAD || exit 3
cd "$WT/wt"
export PYTHONDONTWRITEBYTECODE=1
/venv/bin/python "$SRC/demo.py" >"$WT/demo_before.log" 2>&1; B=$?
git apply "$SRC/patch.diff" || { echo "patch does not apply"; exit 3; }
/venv/bin/python "$SRC/demo.py" >"$WT/demo_after.log" 2>&1; A=$?
/venv/bin/python -m pytest -q -p no:cacheprovider --timeout=900 >"$WT/tests.log" 2>&1; T=$?
echo "demo unchanged exit=$B  demo changed exit=$A  tests exit=$T : $(tail -1 $WT/tests.log)"
if [ $B -eq 0 ] && [ $A -ne 0 ] && [ $T -eq 0 ]; then
  D=/verif/seeded/$ID; mkdir -p $D
  cp "$SRC/patch.diff" $D/patch.diff; cp "$SRC/demo.py" $D/demo.py
  python3 - "$SRC/meta.json" "$D/meta.json" "$ID" "$(tail -3 $WT/demo_after.log | tr '\n' ' ' | cut -c1-600)" "$(tail -1 $WT/tests.log)" <<'PY'
import json,sys
src,dst,sid,after,tests=sys.argv[1:6]
try: m=json.load(open(src))
except Exception: m={}
out={'id':sid,'property':m.get('property'),'summary':m.get('summary'),'needs':m.get('needs'),'files':m.get('files'),
     'origin':'independent sub-agent given only the property text and a scratch worktree',
     'confirmed':{'demo_on_unchanged_tree':'exit 0','demo_on_changed_tree':'non-zero: '+after,'repo_test_suite_with_change':tests,
                  'how':'fresh scratch worktree of /repo HEAD: demo.py; git apply patch.diff; demo.py; pytest (tools/seed_confirm.sh)'}}
json.dump(out,open(dst,'w'),indent=1)
PY
  echo "stored $D"
  R=0
else
  echo "NOT CONFIRMED"; tail -5 "$WT/demo_before.log" "$WT/demo_after.log" "$WT/tests.log"; R=1
fi
cd /; git -C /repo worktree remove --force "$WT/wt"; rm -rf "$WT"
exit $R
