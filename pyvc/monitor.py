"""Run-time monitoring: the contracts installed as wrappers around the real functions while the repository's own
test-suite runs (thorough tier; a bounded stand-in -- it covers exactly the calls the tests make).

For every monitored call the arguments are deep-copied (one copy of the whole argument tuple, so aliasing between
arguments is preserved), the real function runs on the originals and the contract's spec function natively on the
twins, and the two outcomes are compared with the replay comparator (return value, argument objects after the call,
alias structure, exception type).  A disagreement means the contract is stricter than the code's real use, or the code
has a defect the tests do not assert.
"""
import copy
import functools
import importlib
import sys
import types
import warnings
import numpy as np

from . import api, replay

STATE = {'depth': 0, 'calls': {}, 'mismatches': [], 'skipped': {}}
SKIP_KINDS = ('.getter', '.setter')


def _resolve(target):
    path, qual = target.split('::')
    mod = importlib.import_module(path[:-3].replace('/', '.'))
    parts = qual.split('.')
    if len(parts) == 1:
        return mod, None, parts[0], getattr(mod, parts[0])
    cls = getattr(mod, parts[0])
    return mod, cls, parts[1], cls.__dict__.get(parts[1])


def _compare(target, real_out, spec_out, args_real, args_twin, kw_real, kw_twin):
    diffs = []
    if real_out[0] != spec_out[0]:
        diffs.append('outcome: code %s, contract %s' % (real_out[0] if real_out[0] == 'return' else 'raises ' + real_out[1],
                                                         spec_out[0] if spec_out[0] == 'return' else 'raises ' + spec_out[1]))
    elif real_out[0] == 'raise':
        if real_out[1] != spec_out[1]:
            diffs.append('outcome: code raises %s, contract raises %s' % (real_out[1], spec_out[1]))
    else:
        sa, sb = replay.Snap(), replay.Snap()
        ra = sa.take([real_out[1], list(args_real), dict(kw_real)])
        rb = sb.take([spec_out[1], list(args_twin), dict(kw_twin)])
        replay.COMPARE_ALIASING = False
        try:
            replay.reset_pairing()
            for nm, x, y in zip(('return', 'args', 'kwargs'), ra[2], rb[2]):
                replay.diff(x, y, nm, diffs)
        finally:
            replay.COMPARE_ALIASING = True
    return diffs


def _wrap(target, c, real):
    spec = c.spec

    @functools.wraps(real)
    def wrapper(*args, **kw):
        if STATE['depth'] > 0:
            return real(*args, **kw)
        STATE['depth'] += 1
        try:
            try:
                targs, tkw = copy.deepcopy((args, kw))
            except Exception:
                STATE['skipped'][target] = STATE['skipped'].get(target, 0) + 1
                return real(*args, **kw)
            exc = None
            try:
                r = real(*args, **kw)
                real_out = ('return', r)
            except Exception as e:      # noqa
                exc = e
                real_out = ('raise', type(e).__name__)
            try:
                api.WORST_COND[0] = 1.0
                with warnings.catch_warnings():
                    warnings.simplefilter('ignore')
                    with np.errstate(all='ignore'):
                        try:
                            s = spec(*targs, **tkw)
                            spec_out = ('return', s)
                        except api.PreconditionViolated:
                            spec_out = None
                        except Exception as e:      # noqa
                            spec_out = ('raise', type(e).__name__)
                if spec_out is not None and isinstance(real_out[1], types.GeneratorType):
                    spec_out = None
                if spec_out is not None and api.WORST_COND[0] <= 1e8:
                    old = replay.RTOL
                    replay.RTOL = max(replay.RTOL0, 1e3 * 2.3e-16 * api.WORST_COND[0])
                    try:
                        d = _compare(target, real_out, spec_out, args, targs, kw, tkw)
                    finally:
                        replay.RTOL = old
                    STATE['calls'][target] = STATE['calls'].get(target, 0) + 1
                    if d and len(STATE['mismatches']) < 200:
                        STATE['mismatches'].append({'target': target, 'diffs': d[:4]})
                else:
                    STATE['skipped'][target] = STATE['skipped'].get(target, 0) + 1
            except Exception as e:      # noqa: the monitor must never break the monitored program
                STATE['skipped'][target] = STATE['skipped'].get(target, 0) + 1
            if exc is not None:
                raise exc
            return real_out[1]
        finally:
            STATE['depth'] -= 1
    wrapper._pyvc_monitored = True
    return wrapper


def install(contracts, exclude=()):
    """Wrap every real function that has a contract.  Returns the list of (restore thunk)."""
    undo = []
    for key, c in contracts.items():
        if '#defect:' in key or any(key.endswith(k) for k in SKIP_KINDS) or any(x in key for x in exclude):
            continue
        try:
            mod, cls, name, real = _resolve(c.target)
        except Exception:
            continue
        if real is None or not callable(real) or getattr(real, '_pyvc_monitored', False):
            continue
        import inspect
        if inspect.isgeneratorfunction(real):
            continue
        w = _wrap(c.target, c, real)
        if cls is not None:
            setattr(cls, name, w)
            undo.append((lambda cls=cls, name=name, real=real: setattr(cls, name, real)))
        else:
            # module-level function: replace every reference held by a pyPRISM module
            for m in list(sys.modules.values()):
                if m is None or not getattr(m, '__name__', '').startswith('pyPRISM'):
                    continue
                for attr, val in list(vars(m).items()):
                    if val is real:
                        setattr(m, attr, w)
                        undo.append((lambda m=m, attr=attr, real=real: setattr(m, attr, real)))
    return undo


def run_test_suite(repo):
    import pytest
    import os
    cwd = os.getcwd()
    os.chdir(repo)
    try:
        rc = pytest.main(['-q', '-x', '-p', 'no:cacheprovider', '--timeout=900', 'pyPRISM/test'])
    finally:
        os.chdir(cwd)
    return int(rc)
