#!/bin/sh
# usage: seed_run.sh <seed-id> [PROP ...]   applies /verif/seeded/<id>/patch.diff to /repo, runs ./check, undoes it.
export PYVC_EVIDENCE_DIR=${PYVC_EVIDENCE_DIR:-/tmp/pyvc_evidence_scratch}   # runs on modified trees never overwrite /verif/evidence
ID=$1; shift
D=/verif/seeded/$ID
[ -z "$(git -C /repo status --porcelain --untracked-files=no)" ] || { echo "/repo not clean"; exit 3; }
PROPS="$*"; [ -n "$PROPS" ] || PROPS=$(python3 -c "import json;print(json.load(open('$D/meta.json'))['property'])")
git -C /repo apply $D/patch.diff || exit 3
for p in $PROPS; do
  /verif/check $p > /tmp/seedrun_$ID_$p.log 2>&1; rc=$?
  echo "seed=$ID prop=$p exit=$rc : $(grep -c '^VIOLATION' /tmp/seedrun_$ID_$p.log) violation line(s); $(tail -1 /tmp/seedrun_$ID_$p.log)"
  grep -m3 'failing obligation' /tmp/seedrun_$ID_$p.log
done
git -C /repo checkout -- .
