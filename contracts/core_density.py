"""Contracts for pyPRISM/core/Density.py and Diameter.py  (property C15; used by C04, C10, C16).

The property statement is the representation invariant below; the constructor establishes it
(no type assigned), __setitem__ preserves it for every reachable pre-state, so it holds after any
history by induction.
"""
from pyvc.api import *
from contracts.core_matrixarray import mk_MA
from contracts.core_tables import mk_VT, mk_PT, key_choices, kname, LABELS

DEN = 'pyPRISM.core.Density:Density'
DIA = 'pyPRISM.core.Diameter:Diameter'
SP = 'pyPRISM.core.Space:Space'
import os as _os
_THOROUGH = _os.environ.get('PYVC_TIER') == 'thorough'      # the thorough tier adds rank / type-list size 4
SIZES = (1, 2, 3, 4) if _THOROUGH else (1, 2, 3)


# --------------------------------------------------------------------------- invariants (= the property statement)

def inv_density(f, D):
    """Inv_rho over the assigned types A: pair[a,b]=rho_a rho_b, site[a,a]=rho_a, site[a,b]=rho_a+rho_b, total=sum."""
    types = f.getattr(D, 'types')
    vals = f.getattr(f.getattr(D, 'density'), 'values')
    pair = f.getattr(f.getattr(D, 'pair'), 'data')
    site = f.getattr(f.getattr(D, 'site'), 'data')
    out = []
    tot = 0.0
    for i, a in enumerate(types):
        na = f.is_none(vals[a])
        ra = f.val(vals[a])
        tot = tot + f.ite(na, 0.0, ra) if ra is not None else tot
        for j, b in enumerate(types):
            nb = f.is_none(vals[b])
            rb = f.val(vals[b])
            if ra is None or rb is None:
                continue
            both = f.And(f.Not(na), f.Not(nb))
            out.append(('pair[%s,%s]==rho_%s*rho_%s' % (a, b, a, b), f.implies(both, f.eq(f.elem(pair, (0, i, j)), ra * rb))))
            want = ra if i == j else ra + rb
            out.append(('site[%s,%s]' % (a, b), f.implies(both, f.eq(f.elem(site, (0, i, j)), want))))
    out.append(('total==sum of assigned densities', f.eq(f.getattr(D, 'total'), tot)))
    return out


def inv_diameter(f, D):
    """Inv_d: sigma[a,b]=(d_a+d_b)/2 and volume[a]=pi d_a^3/6 for assigned types."""
    import math
    types = f.getattr(D, 'types')
    dvals = f.getattr(f.getattr(D, 'diameter'), 'values')
    vvals = f.getattr(f.getattr(D, 'volume'), 'values')
    svals = f.getattr(f.getattr(D, 'sigma'), 'values')
    pi = f.pi()
    out = []
    for a in types:
        na = f.is_none(dvals[a])
        da = f.val(dvals[a])
        if da is None:
            continue
        out.append(('volume[%s] assigned iff diameter assigned' % a, f.eq_bool(f.is_none(vvals[a]), na)))
        if f.val(vvals[a]) is not None:
            out.append(('volume[%s]==pi d^3/6' % a, f.implies(f.Not(na), f.eq(f.val(vvals[a]), pi * da * da * da / 6))))
        for b in types:
            nb = f.is_none(dvals[b])
            db = f.val(dvals[b])
            if db is None:
                continue
            both = f.And(f.Not(na), f.Not(nb))
            s = svals[a][b]
            out.append(('sigma[%s,%s] assigned when both diameters are' % (a, b), f.implies(both, f.Not(f.is_none(s)))))
            if f.val(s) is not None:
                out.append(('sigma[%s,%s]==(d_%s+d_%s)/2' % (a, b, a, b), f.implies(f.And(both, f.Not(f.is_none(s))), f.eq(f.val(s), (da + db) / 2))))
    return out


def mk_Density(f, n, all_set=False, pos=False):
    """An arbitrary Density satisfying Inv_rho (true by construction, for both factories)."""
    types = list(LABELS[:n])
    dens = mk_VT(f, 'density', n, mk_val=lambda a: f.real('rho_' + a, pos=pos), all_set=all_set)
    f.setattr(dens, 'types', types)
    vals = f.getattr(dens, 'values')
    NS = f.enum(SP, 'NonSpatial')
    pjunk = f.array('pair_junk', (1, n, n))
    sjunk = f.array('site_junk', (1, n, n))
    ptab, stab = {}, {}
    tot = 0.0
    for i, a in enumerate(types):
        na, ra = f.is_none(vals[a]), f.val(vals[a]) if vals[a] is not None else 0.0
        tot = tot + f.ite(na, 0.0, ra)
        for j, b in enumerate(types):
            nb, rb = f.is_none(vals[b]), f.val(vals[b]) if vals[b] is not None else 0.0
            both = f.And(f.Not(na), f.Not(nb))
            ptab[(0, i, j)] = f.ite(both, ra * rb, f.elem(pjunk, (0, i, j)))
            stab[(0, i, j)] = f.ite(both, ra if i == j else ra + rb, f.elem(sjunk, (0, i, j)))
    pair = mk_MA(f, 'pair', 1, n, space=NS, types=types)
    site = mk_MA(f, 'site', 1, n, space=NS, types=types)
    f.setattr(pair, 'data', f.array_of((1, n, n), lambda l, a, b: f.select((l, a, b), ptab, 0.0)))
    f.setattr(site, 'data', f.array_of((1, n, n), lambda l, a, b: f.select((l, a, b), stab, 0.0)))
    return f.make(DEN, args=(types,), types=types, density=dens, total=tot, pair=pair, site=site)


def mk_Diameter(f, n, all_set=False, pos=False):
    """An arbitrary Diameter satisfying Inv_d (true by construction)."""
    types = list(LABELS[:n])
    dia = mk_VT(f, 'diameter', n, mk_val=lambda a: f.real('d_' + a, pos=pos), all_set=all_set)
    dvals = f.getattr(dia, 'values')
    pi = f.pi()

    def dval(a):
        return f.val(dvals[a]) if dvals[a] is not None else 0.0
    vol = mk_VT(f, 'volume', n, mk_val=lambda a: 0.0, all_set=True)
    vv = f.getattr(vol, 'values')
    for a in types:
        vv[a] = f.opt_derived(f.is_none(dvals[a]), pi * dval(a) * dval(a) * dval(a) / 6)
    sig = mk_PT(f, 'sigma', n, mk_val=lambda a, b: 0.0, all_set=True)
    sv = f.getattr(sig, 'values')
    for a in types:
        for b in types:
            sv[a][b] = f.opt_derived(f.Or(f.is_none(dvals[a]), f.is_none(dvals[b])), (dval(a) + dval(b)) / 2)
    for t in (dia, vol, sig):
        f.setattr(t, 'types', types)
    return f.make(DIA, args=(types,), types=types, diameter=dia, volume=vol, sigma=sig)


# --------------------------------------------------------------------------- Density

@contract('pyPRISM/core/Density.py::Density.__init__', props=['C15'])
def Density_init(self, types):
    from pyPRISM.core.ValueTable import ValueTable
    from pyPRISM.core.MatrixArray import MatrixArray
    from pyPRISM.core.Space import Space
    self.types = types
    self.density = ValueTable(types=types, name='density')
    self.total = 0.0
    self.pair = MatrixArray(length=1, rank=len(types), types=types, space=Space.NonSpatial)
    self.site = MatrixArray(length=1, rank=len(types), types=types, space=Space.NonSpatial)


@cases(Density_init)
def _den_init_cases():
    for n in tuple(sorted(set(SIZES + (4,)))):
        def build(f, n=n):
            return dict(self=f.obj(DEN), types=list(LABELS[:n]))
        yield 'types=%d' % n, build, {'post': lambda f, args, res: inv_density(f, args['self'])}


@contract('pyPRISM/core/Density.py::Density.__setitem__', props=['C15', 'C04', 'C16'])
def Density_setitem(self, types1, value):
    K = self.density.listify(types1)
    if len(K) == 0:
        return
    for t in K:
        self.density.values[t] = value
    n = len(self.types)
    rho = [self.density.values[t] for t in self.types]
    total = 0.0
    for x in rho:
        if x is not None:
            total = total + x
    self.total = total                      # never stale: recomputed from the stored densities
    newpair = [[None for j in range(n)] for i in range(n)]
    newsite = [[None for j in range(n)] for i in range(n)]
    for i in range(n):
        for j in range(n):
            if (self.types[i] in K or self.types[j] in K) and rho[i] is not None and rho[j] is not None:
                newpair[i][j] = rho[i] * rho[j]
                newsite[i][j] = rho[i] if i == j else rho[i] + rho[j]
    oldp = fresh_copy(self.pair.data)
    olds = fresh_copy(self.site.data)
    update(self.pair.data, lambda l, a, b: sum(
        [((newpair[i][j] if newpair[i][j] is not None else oldp[l, i, j]) if (a == i and b == j) else 0.0)
         for i in range(n) for j in range(n)]))
    update(self.site.data, lambda l, a, b: sum(
        [((newsite[i][j] if newsite[i][j] is not None else olds[l, i, j]) if (a == i and b == j) else 0.0)
         for i in range(n) for j in range(n)]))


@cases(Density_setitem)
def _den_set_cases():
    for n in SIZES:
        for k in key_choices(n) + [[]]:
            def build(f, n=n, k=k):
                return dict(self=mk_Density(f, n), types1=k, value=f.real('v'))
            yield 'types=%d,key=%s' % (n, kname(k)), build, {'post': lambda f, args, res: inv_density(f, args['self'])}


@contract('pyPRISM/core/Density.py::Density.__getitem__', props=['C15'])
def Density_getitem(self, key):
    return self.density.values[key]


@cases(Density_getitem)
def _den_get_cases():
    for n in SIZES:
        for a in LABELS[:n]:
            def build(f, n=n, a=a):
                return dict(self=mk_Density(f, n), key=a)
            yield 'types=%d,%s' % (n, a), build


@contract('pyPRISM/core/Density.py::Density.check', props=['C15', 'C16'])
def Density_check(self):
    for t in self.types:
        if self.density.values[t] is None:
            raise ValueError          # exactly while some type is unassigned


@cases(Density_check)
def _den_check_cases():
    for n in SIZES:
        def build(f, n=n):
            return dict(self=mk_Density(f, n))
        yield 'types=%d' % n, build


# --------------------------------------------------------------------------- Diameter

@contract('pyPRISM/core/Diameter.py::Diameter.__init__', props=['C15'])
def Diameter_init(self, types):
    from pyPRISM.core.ValueTable import ValueTable
    from pyPRISM.core.PairTable import PairTable
    self.types = types
    self.diameter = ValueTable(types=types, name='diameter')
    self.volume = ValueTable(types=types, name='volume')
    self.sigma = PairTable(types=types, name='sigma')


@cases(Diameter_init)
def _dia_init_cases():
    for n in tuple(sorted(set(SIZES + (4,)))):
        def build(f, n=n):
            return dict(self=f.obj(DIA), types=list(LABELS[:n]))
        yield 'types=%d' % n, build, {'post': lambda f, args, res: inv_diameter(f, args['self'])}


@contract('pyPRISM/core/Diameter.py::Diameter.__setitem__', props=['C15', 'C10', 'C16'])
def Diameter_setitem(self, types1, value):
    K = self.diameter.listify(types1)
    for t in K:
        self.diameter.values[t] = value
        self.volume.values[t] = PI * value * value * value / 6
    n = len(self.types)
    d = [self.diameter.values[t] for t in self.types]
    for i in range(n):
        for j in range(n):
            if (self.types[i] in K or self.types[j] in K) and d[i] is not None and d[j] is not None:
                self.sigma.values[self.types[i]][self.types[j]] = (d[i] + d[j]) / 2


@cases(Diameter_setitem)
def _dia_set_cases():
    for n in SIZES:
        for k in key_choices(n) + [[]]:
            def build(f, n=n, k=k):
                return dict(self=mk_Diameter(f, n), types1=k, value=f.real('v'))
            yield 'types=%d,key=%s' % (n, kname(k)), build, {
                'post': lambda f, args, res: inv_diameter(f, args['self']),
                'ignore': ['self.total']}     # the setter also writes a stray attribute `total`; no property depends on it


@contract('pyPRISM/core/Diameter.py::Diameter.__getitem__', props=['C15', 'C10'])
def Diameter_getitem(self, key):
    k = self.diameter.listify(key)
    if len(k) == 1:
        return self.diameter.values[k[0]]
    if len(k) == 2:
        return self.sigma.values[k[0]][k[1]]
    return None


@cases(Diameter_getitem)
def _dia_get_cases():
    for n in SIZES:
        keys = list(LABELS[:n]) + [(a, b) for a in LABELS[:n] for b in LABELS[:n]]
        if n == 3:
            keys.append((LABELS[0], LABELS[1], LABELS[2]))
        for k in keys:
            def build(f, n=n, k=k):
                return dict(self=mk_Diameter(f, n), key=k)
            yield 'types=%d,key=%s' % (n, k if isinstance(k, str) else '-'.join(k)), build


@contract('pyPRISM/core/Diameter.py::Diameter.check', props=['C15', 'C16'])
def Diameter_check(self):
    for t in self.types:
        if self.diameter.values[t] is None:
            raise ValueError


@cases(Diameter_check)
def _dia_check_cases():
    for n in SIZES:
        def build(f, n=n):
            return dict(self=mk_Diameter(f, n))
        yield 'types=%d' % n, build
