"""Models (assumed contracts, DESIGN.md §3 A4/A5) of builtins, numpy, scipy, copy, itertools."""
import ast
import itertools
import z3
from fractions import Fraction
from .sym import *
from .arr import *
from .state import SObj


def install(ip):
    from . import interp as I
    M = ip.models

    def reg(name):
        def deco(f):
            M[name] = f
            return f
        return deco

    # ------------------------------------------------------------------ builtins
    @reg('builtins.len')
    def _len(ip, args, kw):
        (x,) = args
        x = ip.unopt(x, 'len() argument')
        if isinstance(x, (list, tuple, dict, str, set)):
            return len(x)
        if isinstance(x, SSet):
            return _setlen(ip, x)
        if isinstance(x, SArr):
            if len(x.shape) == 0:
                raise SymRaise('TypeError', 'len() of unsized object')
            return x.shape[0]
        if isinstance(x, SMasked):
            raise Unsupported('len of masked selection')
        if isinstance(x, SObj):
            f = ip.find_method(x.cls, '__len__')
            if f is not None:
                return ip.call_function(f, [x], {})
        if isinstance(x, SRef):
            raise Unsupported('len of opaque object')
        raise SymRaise('TypeError', 'object has no len()')

    @reg('builtins.range')
    def _range(ip, args, kw):
        vals = [ip.unopt(a) for a in args]
        if any(is_sym(v) for v in vals):
            if len(vals) == 1:
                return I.SSymRange(0, vals[0])
            if len(vals) == 2:
                return I.SSymRange(vals[0], vals[1])
            raise Unsupported('symbolic range with step')
        try:
            return range(*[int(v) for v in vals])
        except (TypeError, ValueError):
            raise SymRaise('TypeError', 'range() argument')

    @reg('builtins.enumerate')
    def _enumerate(ip, args, kw):
        it = ip.iterate(args[0])
        ip_ = ip

        def g():
            i = 0
            while True:
                x = yield from ip_.next_item(it)
                if x is I.END:
                    return
                yield I.YieldEvent((i, x))
                i += 1
        return I.SGen(g())

    @reg('builtins.zip')
    def _zip(ip, args, kw):
        its = [ip.iterate(a) for a in args]

        def g():
            while True:
                row = []
                for it in its:
                    x = yield from ip.next_item(it)
                    if x is I.END:
                        return
                    row.append(x)
                yield I.YieldEvent(tuple(row))
        return I.SGen(g())

    @reg('builtins.list')
    def _list(ip, args, kw):
        if not args:
            return []
        x = args[0]
        if isinstance(x, (list, tuple, str, range, set)):
            return list(x)
        if isinstance(x, dict):
            return list(x.keys())
        loop = ip.iterate(x)
        out = []
        while True:
            v = yield from ip.next_item(loop)
            if v is I.END:
                break
            out.append(v)
        return out

    @reg('builtins.tuple')
    def _tuple(ip, args, kw):
        r = yield from _list(ip, args, kw)
        return tuple(r)

    @reg('builtins.set')
    def _set(ip, args, kw):
        if not args:
            return SSet([])
        xs = yield from _list(ip, args, kw)
        if all(not is_sym(x) for x in xs):
            try:
                return SSet(list(dict.fromkeys(xs)), concrete=True)
            except TypeError:
                raise SymRaise('TypeError', 'unhashable')
        return SSet(xs)

    @reg('builtins.frozenset')
    def _frozenset(ip, args, kw):
        xs = []
        if args:
            xs = yield from _list(ip, args, kw)
        if any(is_sym(x) for x in xs):
            raise Unsupported('frozenset of symbolic values')
        try:
            return frozenset(xs)
        except TypeError:
            raise SymRaise('TypeError', 'unhashable')

    @reg('builtins.dict')
    def _dict(ip, args, kw):
        d = {}
        if args:
            if isinstance(args[0], dict):
                d.update(args[0])
            else:
                pairs = yield from _list(ip, [args[0]], {})
                for pr in pairs:
                    k, v = pr
                    d[ip.hashable(k)] = v
        d.update(kw)
        return d

    @reg('builtins.iter')
    def _iter(ip, args, kw):
        x = args[0]
        if isinstance(x, SOpt):
            x = ip.unopt(x, 'iter() argument')
        if isinstance(x, (list, tuple, str, dict, set, range, I.SGen, SArr)):
            return ip.iterate(x)
        if isinstance(x, SObj) and ip.find_method(x.cls, '__iter__'):
            f = ip.find_method(x.cls, '__iter__')
            return ip.call_function(f, [x], {})
        raise SymRaise('TypeError', 'object is not iterable')

    @reg('builtins.isinstance')
    def _isinstance(ip, args, kw):
        x, c = args
        cs = c if isinstance(c, tuple) else (c,)
        for k in cs:
            if isinstance(k, I.SClass):
                if isinstance(x, SObj) and isinstance(x.cls, I.SClass) and k in x.cls.mro():
                    return True
            elif isinstance(k, I.SBuiltin):
                nm = k.name
                if nm == 'builtins.str' and isinstance(x, (str, SStr)):
                    return True
                if nm == 'builtins.list' and isinstance(x, list):
                    return True
                if nm == 'builtins.tuple' and isinstance(x, tuple):
                    return True
                if nm == 'builtins.dict' and isinstance(x, dict):
                    return True
                if nm == 'builtins.int' and (isinstance(x, int) and not isinstance(x, bool) or (is_sym(x) and z3.is_int(x))):
                    return True
                if nm == 'builtins.float' and (isinstance(x, Fraction) or (is_sym(x) and z3.is_real(x))):
                    return True
                if nm == 'numpy.ndarray' and isinstance(x, SArr):
                    return True
            elif isinstance(k, I.SExcClass):
                if isinstance(x, I.SExcInst) and exc_isinstance(x.name, k.name):
                    return True
            else:
                raise Unsupported('isinstance against %r' % (k,))
        return False

    @reg('builtins.type')
    def _type(ip, args, kw):
        if len(args) != 1:
            raise Unsupported('three-argument type()')
        x = args[0]
        if isinstance(x, I.SOpt):
            x = ip.unopt(x, 'type()')
        if isinstance(x, SObj):
            return x.cls
        if isinstance(x, bool) or (is_sym(x) and z3.is_bool(x)):
            return I.SBuiltin('builtins.bool')
        if isinstance(x, int) or (is_sym(x) and z3.is_int(x)):
            return I.SBuiltin('builtins.int')          # f.int / literals: Python ints (numpy integer scalars are not modelled apart)
        if isinstance(x, (Fraction, float)) or (is_sym(x) and z3.is_real(x)):
            return I.SBuiltin('builtins.float')
        if isinstance(x, (str, SStr)):
            return I.SBuiltin('builtins.str')
        for t, nm in ((list, 'list'), (tuple, 'tuple'), (dict, 'dict')):
            if isinstance(x, t):
                return I.SBuiltin('builtins.' + nm)
        if isinstance(x, SArr):
            return I.SBuiltin('numpy.ndarray')
        raise Unsupported('type() of %r' % (x,))

    for nm in ('str', 'int', 'float', 'bool', 'object', 'super', 'abs', 'min', 'max', 'sum', 'print', 'hasattr',
               'getattr', 'type', 'sorted', 'reversed', 'any', 'all', 'round', 'callable', 'id'):
        M.setdefault('builtins.' + nm, None)

    @reg('builtins.object')
    def _object(ip, args, kw):
        raise Unsupported('object()')

    @reg('object.__init__')
    def _object_init(ip, args, kw):
        return None

    @reg('builtins.super')
    def _super(ip, args, kw):
        if len(args) != 2:
            raise Unsupported('zero-argument super()')
        return I.SSuper(args[0], args[1])

    @reg('builtins.abs')
    def _abs(ip, args, kw):
        r = yield from ip.transcendental('abs', args[0])
        return r

    @reg('builtins.int')
    def _int(ip, args, kw):
        x = ip.unopt(args[0])
        if isinstance(x, bool):
            return int(x)
        if isinstance(x, int):
            return x
        if isinstance(x, Fraction):
            return int(x)
        if is_sym(x) and z3.is_int(x):
            return x
        if is_sym(x) and z3.is_real(x):
            return z3.ToInt(x)     # NB: floor, equals int() for x >= 0 only
        raise Unsupported('int(%r)' % (x,))

    @reg('builtins.float')
    def _float(ip, args, kw):
        x = ip.unopt(args[0])
        if is_num(x):
            return to_real(x) if is_sym(x) else Fraction(x)
        if isinstance(x, SArr) and (len(x.shape) == 0 or (len(x.shape) == 1 and not is_sym(x.shape[0]) and x.shape[0] == 1)):
            return x.elem(ip.st, (0,) * len(x.shape))
        raise Unsupported('float(%r)' % (x,))

    @reg('builtins.bool')
    def _bool(ip, args, kw):
        return ip.truth(args[0])

    @reg('builtins.str')
    def _str(ip, args, kw):
        return SStr()

    @reg('builtins.print')
    def _print(ip, args, kw):
        return None

    def _mk_operator(name, astop, inplace):
        def f(ip, args, kw):
            a, b = args
            if inplace:
                r = yield from ip.inplace_op(astop, a, b)
            else:
                r = yield from ip.binop(astop, a, b)
            return r
        M['operator.' + name] = f
        M['operator.__%s__' % name] = f
    for _n, _op in (('add', ast.Add), ('sub', ast.Sub), ('mul', ast.Mult), ('truediv', ast.Div), ('matmul', ast.MatMult), ('pow', ast.Pow)):
        _mk_operator(_n, _op, False)
        if _n != 'pow':
            _mk_operator('i' + _n, _op, True)

    @reg('operator.neg')
    def _opneg(ip, args, kw):
        r = yield from ip.unop(ast.USub, args[0])
        return r

    for _n, _sym in (('lt', '<'), ('le', '<='), ('gt', '>'), ('ge', '>='), ('eq', '=='), ('ne', '!=')):
        def _mkcmp(sym):
            def f(ip, args, kw):
                r = yield from ip.rich_compare(sym, args[0], args[1])
                return r
            return f
        M['operator.' + _n] = _mkcmp(_sym)

    @reg('operator.itemgetter')
    def _itemgetter(ip, args, kw):
        raise Unsupported('operator.itemgetter')

    @reg('builtins.sorted')
    def _sorted(ip, args, kw):
        xs = yield from _list(ip, [args[0]], {})
        if kw.get('key') is not None:
            raise Unsupported('sorted(key=...)')
        if any(is_sym(x) or not isinstance(x, (str, int, float, Fraction, tuple)) for x in xs):
            raise Unsupported('sorted() of symbolic / non-scalar values')
        try:
            return sorted(xs, reverse=bool(kw.get('reverse', False)))
        except TypeError:
            raise SymRaise('TypeError', 'unorderable')

    @reg('builtins.reversed')
    def _reversed(ip, args, kw):
        xs = yield from _list(ip, [args[0]], {})
        return list(reversed(xs))

    @reg('functools.partial')
    def _partial(ip, args, kw):
        return I.SPartial(args[0], list(args[1:]), dict(kw.items()))

    @reg('builtins.min')
    def _min(ip, args, kw):
        xs = list(args[0]) if len(args) == 1 else list(args)
        r = xs[0]
        for x in xs[1:]:
            r = mk_ite(mk_cmp('<', x, r), x, r) if (is_sym(x) or is_sym(r)) else min(x, r)
        return r

    @reg('builtins.max')
    def _max(ip, args, kw):
        xs = list(args[0]) if len(args) == 1 else list(args)
        r = xs[0]
        for x in xs[1:]:
            r = mk_ite(mk_cmp('>', x, r), x, r) if (is_sym(x) or is_sym(r)) else max(x, r)
        return r

    @reg('builtins.sum')
    def _sum(ip, args, kw):
        xs = yield from _list(ip, [args[0]], {})
        r = args[1] if len(args) > 1 else 0
        for x in xs:
            r = yield from ip.binop(ast.Add, r, x)
        return r

    @reg('builtins.hasattr')
    def _hasattr(ip, args, kw):
        o, n = args
        try:
            yield from ip.getattr(o, n)
            return True
        except SymRaise as e:
            if exc_isinstance(e.name, 'AttributeError'):
                return False
            raise

    @reg('builtins.getattr')
    def _getattr(ip, args, kw):
        if len(args) not in (2, 3) or kw:
            raise Unsupported('getattr() call shape')
        o, n = args[0], args[1]
        if not isinstance(n, str):
            raise Unsupported('getattr with a symbolic name')
        try:
            r = yield from ip.getattr(o, n)
            return r
        except SymRaise as e:
            if len(args) == 3 and exc_isinstance(e.name, 'AttributeError'):
                return args[2]
            raise

    @reg('builtins.setattr')
    def _setattr(ip, args, kw):
        o, n, v = args
        if not isinstance(n, str):
            raise Unsupported('setattr with a symbolic name')
        yield from ip.setattr(o, n, v)

    # ------------------------------------------------------------------ list / dict / str methods
    @reg('list.append')
    def _append(ip, args, kw):
        args[0].append(args[1])

    @reg('list.extend')
    def _extend(ip, args, kw):
        args[0].extend(list(args[1]))

    @reg('list.index')
    def _index(ip, args, kw):
        try:
            return args[0].index(args[1])
        except ValueError:
            raise SymRaise('ValueError', 'not in list')

    @reg('dict.items')
    def _items(ip, args, kw):
        return list(args[0].items())

    @reg('dict.keys')
    def _keys(ip, args, kw):
        return list(args[0].keys())

    @reg('dict.values')
    def _values(ip, args, kw):
        return list(args[0].values())

    @reg('dict.get')
    def _get(ip, args, kw):
        d, k = args[0], ip.dkey(args[0], args[1])
        for kk in d:
            if kk is k or (hash(kk) == hash(k) and kk == k):
                return d[kk]
        return args[2] if len(args) > 2 else None

    @reg('dict.update')
    def _update(ip, args, kw):
        args[0].update(args[1])

    @reg('str.format')
    def _format(ip, args, kw):
        return SStr()

    @reg('str.join')
    def _join(ip, args, kw):
        return SStr()

    # ------------------------------------------------------------------ misc stdlib
    @reg('warnings.catch_warnings')
    def _catch_warnings(ip, args, kw):
        list(kw.items())
        return I.SCtx()          # warning bookkeeping only: no effect on values

    @reg('warnings.simplefilter')
    def _simplefilter(ip, args, kw):
        list(kw.items())
        return None

    M['warnings.filterwarnings'] = _simplefilter

    @reg('warnings.warn')
    def _warn(ip, args, kw):
        return None

    @reg('itertools.product')
    def _product(ip, args, kw):
        lists = []
        for a in args:
            xs = yield from _list(ip, [a], {})
            lists.append(xs)
        rep = kw.get('repeat', 1)
        if is_sym(rep):
            raise Unsupported('product with a symbolic repeat')
        return [tuple(t) for t in itertools.product(*lists, repeat=int(rep))]

    @reg('builtins.any')
    def _bany(ip, args, kw):
        loop = ip.iterate(args[0])
        while True:
            x = yield from ip.next_item(loop)
            if x is I.END:
                return False
            if ip.truth(x):
                return True

    @reg('builtins.all')
    def _ball(ip, args, kw):
        loop = ip.iterate(args[0])
        while True:
            x = yield from ip.next_item(loop)
            if x is I.END:
                return True
            if not ip.truth(x):
                return False

    @reg('itertools.combinations')
    def _combinations(ip, args, kw):
        xs = yield from _list(ip, [args[0]], {})
        r = args[1]
        if is_sym(r):
            raise Unsupported('combinations with a symbolic r')
        return [tuple(t) for t in itertools.combinations(xs, int(r))]

    @reg('itertools.combinations_with_replacement')
    def _combinations_wr(ip, args, kw):
        xs = yield from _list(ip, [args[0]], {})
        r = args[1] if len(args) > 1 else kw['r']
        if is_sym(r):
            raise Unsupported('combinations_with_replacement with a symbolic r')
        return [tuple(t) for t in itertools.combinations_with_replacement(xs, int(r))]

    @reg('itertools.permutations')
    def _permutations(ip, args, kw):
        xs = yield from _list(ip, [args[0]], {})
        r = args[1] if len(args) > 1 else kw.get('r')
        if is_sym(r):
            raise Unsupported('permutations with a symbolic r')
        return [tuple(t) for t in itertools.permutations(xs, None if r is None else int(r))]

    @reg('itertools.chain')
    def _chain(ip, args, kw):
        out = []
        for a in args:
            xs = yield from _list(ip, [a], {})
            out.extend(xs)
        return out

    @reg('dict.fromkeys')
    def _fromkeys(ip, args, kw):
        keys = yield from _list(ip, [args[0]], {})
        val = args[1] if len(args) > 1 else kw.get('value')
        return dict((ip.hashable(k), val) for k in keys)

    @reg('copy.deepcopy')
    def _deepcopy(ip, args, kw):
        memo_ = {}
        return deepcopy_value(ip, args[0], memo_)

    @reg('copy.copy')
    def _copy(ip, args, kw):
        x = args[0]
        if isinstance(x, SObj):
            o = ip.st.new_obj(x.cls)
            ip.st.heap[o.oid] = dict(ip.st.heap[x.oid])
            return o
        if isinstance(x, list):
            return list(x)
        if isinstance(x, dict):
            return dict(x)
        if isinstance(x, SArr):
            return ip.copy_array(x)
        return x

    for fn in ('exp', 'log', 'sin', 'cos', 'sqrt'):
        def mk(fn):
            def f(ip, args, kw):
                x = ip.unopt(args[0])
                if isinstance(x, (SArr, SMasked)):
                    if isinstance(x, SArr) and (len(x.shape) == 0 or all((not is_sym(s)) and s == 1 for s in x.shape)):
                        x = x.elem(ip.st, (0,) * len(x.shape))
                    else:
                        raise SymRaise('TypeError', 'only 0-dimensional arrays can be converted to Python scalars')
                return ip.transcendental_scalar(fn, x)
            return f
        M['math.' + fn] = mk(fn)

    # ------------------------------------------------------------------ numpy
    def shape_arg(x):
        if isinstance(x, (tuple, list)):
            return tuple(x)
        return (x,)

    def _want_dtype(args, kw, pos, default):
        dt = kw.get('dtype', args[pos] if len(args) > pos else None)
        if dt is None:
            return default
        want = _dtype_name(dt)
        if want is None:
            raise Unsupported('dtype %r' % (dt,))
        return want

    def _const_of(v, dtype):
        if dtype == 'real':
            return z3.RealVal(v)
        if dtype == 'bool':
            return bool(v)
        return int(v)

    @reg('numpy.zeros')
    def _zeros(ip, args, kw):
        shp = shape_arg(args[0])
        dt = _want_dtype(args, kw, 1, 'real')
        return ip.st.new_array(shp, lambda idx: _const_of(0, dt), dt)

    @reg('numpy.ones')
    def _ones(ip, args, kw):
        shp = shape_arg(args[0])
        dt = _want_dtype(args, kw, 1, 'real')
        return ip.st.new_array(shp, lambda idx: _const_of(1, dt), dt)

    @reg('numpy.zeros_like')
    def _zeros_like(ip, args, kw):
        a = ip.unopt(args[0])
        if not isinstance(a, SArr):
            if is_num(a):
                return Fraction(0)
            a = ip.as_array(a)
        dt = _want_dtype(args, kw, 1, a.dtype)
        return ip.st.new_array(a.shape, lambda idx: _const_of(0, dt), dt)

    @reg('numpy.ones_like')
    def _ones_like(ip, args, kw):
        a = ip.unopt(args[0])
        if not isinstance(a, SArr):
            if is_num(a):
                return Fraction(1)
            a = ip.as_array(a)
        dt = _want_dtype(args, kw, 1, a.dtype)
        return ip.st.new_array(a.shape, lambda idx: _const_of(1, dt), dt)

    @reg('numpy.full_like')
    def _full_like(ip, args, kw):
        a = ip.unopt(args[0])
        v = ip.unopt(args[1])
        if a.dtype == 'int' and not (isinstance(v, int) or (is_sym(v) and z3.is_int(v))):
            raise Unsupported('full_like truncation to integer dtype')
        return ip.st.new_array(a.shape, lambda idx: v, a.dtype)

    @reg('numpy.copy')
    def _npcopy(ip, args, kw):
        a = ip.unopt(args[0])
        if not isinstance(a, SArr):
            a = ip.as_array(a)
            return a
        return ip.copy_array(a)

    @reg('numpy.array')
    def _nparray(ip, args, kw):
        a = ip.unopt(args[0])
        if isinstance(a, SArr):
            return ip.copy_array(a)
        if isinstance(a, SRef):
            raise Unsupported('np.array of opaque object')
        if is_num(a):
            return ip.st.new_array((), lambda idx: a)
        return ip.as_array(a)

    @reg('numpy.asarray')
    def _npasarray(ip, args, kw):
        a = ip.unopt(args[0])
        dt = kw.get('dtype', args[1] if len(args) > 1 else None)
        if isinstance(a, SArr):
            if dt is not None:
                want = _dtype_name(dt)
                if want is None:
                    raise Unsupported('np.asarray dtype %r' % (dt,))
                if want != a.dtype:
                    if want == 'real':          # int/bool -> float: a fresh array with the same values
                        sa = a.snapshot(ip.st)
                        return ip.st.new_array(a.shape, lambda idx: to_real(sa(idx)), 'real')
                    raise Unsupported('np.asarray narrowing conversion')
            return a
        return ip.as_array(a)

    def _dtype_name(dt):
        if isinstance(dt, I.SBuiltin):
            return {'builtins.float': 'real', 'builtins.int': 'int', 'builtins.bool': 'bool', 'numpy.float64': 'real',
                    'numpy.float': 'real', 'numpy.int64': 'int'}.get(dt.name)
        if isinstance(dt, str):
            return {'float': 'real', 'float64': 'real', 'int': 'int', 'bool': 'bool'}.get(dt)
        return None

    @reg('numpy.full')
    def _npfull(ip, args, kw):
        shp = shape_arg(args[0])
        v = ip.unopt(args[1] if len(args) > 1 else kw['fill_value'])
        dt = kw.get('dtype', args[2] if len(args) > 2 else None)
        want = _dtype_name(dt) if dt is not None else ('int' if (isinstance(v, int) and not isinstance(v, bool)) or (is_sym(v) and z3.is_int(v)) else 'real')
        if want is None:
            raise Unsupported('np.full dtype')
        if want == 'int' and not ((isinstance(v, int)) or (is_sym(v) and z3.is_int(v))):
            raise Unsupported('np.full truncation to integer dtype')
        return ip.st.new_array(shp, lambda idx: (to_real(v) if want == 'real' else v), want)

    M['numpy.ascontiguousarray'] = M['numpy.asarray']

    def _zero_of(dtype):
        return z3.RealVal(0) if dtype == 'real' else (False if dtype == 'bool' else 0)

    @reg('numpy.diag')
    def _npdiag(ip, args, kw):
        if len(args) > 1 or kw:
            raise Unsupported('np.diag with an offset')
        a = ip.as_array(ip.unopt(args[0]))
        if len(a.shape) == 1:           # vector -> diagonal matrix of the same dtype
            sa, dt, n = a.snapshot(ip.st), a.dtype, a.shape[0]
            return ip.st.new_array((n, n), lambda idx: mk_ite(mk_eq(idx[0], idx[1]), sa((idx[0],)), _zero_of(dt)), dt)
        if len(a.shape) == 2:           # matrix -> copy of its diagonal (numpy returns a read-only view; copied here)
            sa = a.snapshot(ip.st)
            if not (is_num(a.shape[0]) and is_num(a.shape[1])):
                raise Unsupported('np.diag of a matrix of symbolic shape')
            return ip.st.new_array((min(a.shape[0], a.shape[1]),), lambda idx: sa((idx[0], idx[0])), a.dtype)
        raise SymRaise('ValueError', 'Input must be 1- or 2-d.')

    @reg('numpy.tile')
    def _nptile(ip, args, kw):
        a = ip.as_array(ip.unopt(args[0]))
        reps = ip.unopt(args[1] if len(args) > 1 else kw['reps'])
        reps = tuple(reps) if isinstance(reps, (tuple, list)) else (reps,)
        nd = len(a.shape)
        if len(reps) < nd:
            reps = (1,) * (nd - len(reps)) + reps
        lead, tail = reps[:len(reps) - nd], reps[len(reps) - nd:]
        if not all(is_num(x) and x == 1 for x in tail):
            raise Unsupported('np.tile repeating an existing axis')
        sa, k = a.snapshot(ip.st), len(lead)
        return ip.st.new_array(tuple(lead) + tuple(a.shape), lambda idx: sa(tuple(idx[k:])), a.dtype)

    @reg('numpy.eye')
    def _npeye(ip, args, kw):
        if len(args) > 1 or kw:
            raise Unsupported('np.eye with more than one argument')
        n = ip.unopt(args[0])
        return ip.st.new_array((n, n), lambda idx: mk_ite(mk_eq(idx[0], idx[1]), z3.RealVal(1), z3.RealVal(0)), 'real')

    M['numpy.identity'] = M['numpy.eye']

    for fn in ('exp', 'log', 'sin', 'cos', 'sqrt', 'abs'):
        def mk2(fn):
            def f(ip, args, kw):
                r = yield from ip.transcendental(fn, args[0])
                return r
            return f
        M['numpy.' + fn] = mk2(fn)
    M['numpy.absolute'] = M['numpy.abs']
    M['numpy.fabs'] = M['numpy.abs']

    @reg('numpy.where')
    def _where(ip, args, kw):
        if len(args) != 3:
            raise Unsupported('np.where with one argument')
        r = yield from ip.elementwise(lambda c, a, b: mk_ite(c, a, b) if is_sym(c) else (a if c else b), list(args), None)
        return r

    @reg('numpy.any')
    def _any(ip, args, kw):
        a = ip.unopt(args[0])
        if not isinstance(a, SArr):
            return ip.truth(a)
        if a.dtype != 'bool':
            raise Unsupported('np.any of a non boolean array')
        # uninterpreted function of the whole array (only ever guards warnings)
        f = z3.Function('np_any', z3.ArraySort(z3.IntSort(), z3.BoolSort()), z3.IntSort(), z3.BoolSort())
        i = z3.Int('eta!i')
        axis = kw.get('axis', args[1] if len(args) > 1 else None)
        if len(a.shape) == 1 and axis in (None, 0, -1):
            return f(z3.Lambda([i], to_bool(a.elem(ip.st, (i,)))), to_int(a.shape[0]))
        if axis == 0 and len(a.shape) > 1:
            # any along the leading axis: one application of the same predicate per remaining index
            sa, n0 = a.snapshot(ip.st), a.shape[0]
            return ip.st.new_array(tuple(a.shape[1:]), lambda idx: f(z3.Lambda([i], to_bool(sa((i,) + tuple(idx)))), to_int(n0)), 'bool')
        raise Unsupported('np.any over this axis / of an N-D array')

    @reg('ndarray.any')
    def _ndany(ip, args, kw):
        if len(args) != 1 or kw:
            raise Unsupported('ndarray.any with arguments')
        return _any(ip, args, kw)

    @reg('numpy.all')
    def _all(ip, args, kw):
        raise Unsupported('np.all')

    @reg('numpy.min')
    def _npmin(ip, args, kw):
        a = ip.unopt(args[0])
        n = ip.st.fresh_name('min')
        return z3.Real(n)

    @reg('numpy.allclose')
    def _allclose(ip, args, kw):
        a, b = ip.unopt(args[0]), ip.unopt(args[1])
        if kw or len(args) > 2:
            raise Unsupported('np.allclose with explicit tolerances')
        if not isinstance(a, SArr) or not isinstance(b, SArr):
            raise Unsupported('np.allclose of non-arrays')
        shape, mappers = ip.broadcast([a.shape, b.shape])
        f = z3.Function('allclose', z3.ArraySort(z3.IntSort(), z3.RealSort()), z3.ArraySort(z3.IntSort(), z3.RealSort()), z3.IntSort(), z3.BoolSort())
        if len(shape) != 1:
            raise Unsupported('np.allclose of non 1-D arrays')
        ta, tb = array_term(ip, a, mappers[0]), array_term(ip, b, mappers[1])
        if ta.eq(tb):
            return True          # allclose is reflexive on finite data (assumed: no nan in tabulated k grids)
        return f(ta, tb, to_int(shape[0]))

    @reg('numpy.arange')
    def _arange(ip, args, kw):
        vals = [ip.unopt(a) for a in args]
        def isint(v):
            return (isinstance(v, int) and not isinstance(v, bool)) or (is_sym(v) and z3.is_int(v))
        if len(vals) == 1:
            lo, hi = 0, vals[0]
        elif len(vals) == 2:
            lo, hi = vals
        else:
            raise Unsupported('np.arange with a step (float element count is rounding dependent)')
        if not (isint(lo) and isint(hi)):
            raise Unsupported('np.arange with float bounds (element count is rounding dependent)')
        n = mk_sub(hi, lo)
        if not is_sym(n):
            n = max(n, 0)
        else:
            if not ip.decide(mk_cmp('>=', n, 0)):
                n = 0
        return ip.st.new_array((simp(n),), lambda idx: mk_add(lo, idx[0]), 'int')

    def _index_pair(name, gen):
        def f(ip, args, kw):
            n = ip.unopt(args[0])
            if is_sym(n) or len(args) > 1 or kw:
                raise Unsupported('np.%s with a symbolic size / offset' % name)
            pairs = gen(int(n))
            rows, cols = [p[0] for p in pairs], [p[1] for p in pairs]
            return (ip.st.new_array((len(rows),), list_to_fn(rows), 'int'), ip.st.new_array((len(cols),), list_to_fn(cols), 'int'))
        M['numpy.' + name] = f
    _index_pair('triu_indices', lambda n: [(i, j) for i in range(n) for j in range(i, n)])
    _index_pair('tril_indices', lambda n: [(i, j) for i in range(n) for j in range(0, i + 1)])
    _index_pair('diag_indices', lambda n: [(i, i) for i in range(n)])

    @reg('numpy.einsum')
    def _einsum(ip, args, kw):
        sub = args[0]
        a, b = ip.unopt(args[1]), ip.unopt(args[2])
        if sub != 'lij,ljk->lik' or not isinstance(a, SArr) or not isinstance(b, SArr):
            raise Unsupported('np.einsum(%r)' % (sub,))
        if len(a.shape) != 3 or len(b.shape) != 3:
            raise SymRaise('ValueError', 'einsum operand rank')
        La, Ia, Ja = a.shape
        Lb, Jb, Kb = b.shape
        if is_sym(Ja) or is_sym(Jb) or is_sym(Ia) or is_sym(Kb):
            raise Unsupported('einsum with symbolic matrix dimensions')
        if Ja != Jb:
            raise SymRaise('ValueError', 'einsum dimension mismatch')
        # l-extent: numpy broadcasts a length-1 axis, otherwise requires equality
        shape, mappers = ip.broadcast([(La,), (Lb,)])
        L = shape[0]
        sa, sb = a.snapshot(ip.st), b.snapshot(ip.st)
        ma, mb = mappers

        def fn(idx):
            l, i, k = idx
            acc = None
            for j in range(Ja):
                t = mk_mul(sa((ma((l,))[0], i, j)), sb((mb((l,))[0], j, k)))
                acc = t if acc is None else mk_add(acc, t)
            return acc
        return ip.st.new_array((L, Ia, Kb), fn)

    @reg('numpy.linalg.inv')
    def _inv(ip, args, kw):
        a = ip.unopt(args[0])
        if not isinstance(a, SArr) or len(a.shape) != 3:
            raise Unsupported('np.linalg.inv of a non 3-D array')
        L, n, m = a.shape
        if is_sym(n) or is_sym(m):
            raise Unsupported('inv with symbolic matrix size')
        if n != m:
            raise SymRaise('LinAlgError', 'Last 2 dimensions of the array must be square')
        sa = a.snapshot(ip.st)
        return ip.st.new_array((L, n, n), inverse_fn(ip, sa, n))

    @reg('numpy.polyfit')
    def _polyfit(ip, args, kw):
        x, y, deg = ip.unopt(args[0]), ip.unopt(args[1]), args[2]
        if deg != 2:
            raise Unsupported('polyfit degree %r' % (deg,))
        for v in (x, y):
            if not isinstance(v, SArr) or len(v.shape) != 1:
                raise Unsupported('polyfit operands')
        for v in (x, y):
            n = v.shape[0]
            if is_sym(n):
                if not ip.decide(mk_eq(n, 3)):
                    raise Unsupported('polyfit through a number of points other than 3')
            elif n != 3:
                raise Unsupported('polyfit through a number of points other than 3')
        xs = [x.elem(ip.st, (i,)) for i in range(3)]
        ys = [y.elem(ip.st, (i,)) for i in range(3)]
        return I.SPoly(xs, ys)

    @reg('numpy.poly1d')
    def _poly1d(ip, args, kw):
        return args[0]

    @reg('numpy.errstate')
    def _errstate(ip, args, kw):
        list(kw.items())            # floating-point error *reporting* only: no effect on values
        return I.SCtx()

    @reg('numpy.loadtxt')
    def _loadtxt(ip, args, kw):
        name = args[0]
        key = name if isinstance(name, str) else getattr(name, 'key', None)
        if key not in ip.st.files:
            raise Unsupported('np.loadtxt of an unknown file')
        if kw or len(args) > 1:
            raise Unsupported('np.loadtxt with options')
        # assumed contract: a fresh array holding the file's numbers (2-D for several columns,
        # 1-D for one column with >= 2 rows, 0-d for a single number)
        return ip.copy_array(ip.st.files[key])

    @reg('ndarray.reshape')
    def _reshape(ip, args, kw):
        a = args[0]
        shp = args[1:] if len(args) > 2 or not isinstance(args[1], (tuple, list)) else tuple(args[1])
        return ip.reshape(a, tuple(shp))

    @reg('ndarray.copy')
    def _acopy(ip, args, kw):
        return ip.copy_array(args[0])

    @reg('ndarray.max')
    def _amax(ip, args, kw):
        raise Unsupported('ndarray.max')

    @reg('numpy.reshape')
    def _npreshape(ip, args, kw):
        return ip.reshape(ip.unopt(args[0]), tuple(args[1]) if isinstance(args[1], (tuple, list)) else (args[1],))

    @reg('scipy.fftpack.dst')
    def _dst(ip, args, kw):
        a = ip.unopt(args[0])
        typ = kw.get('type', args[1] if len(args) > 1 else 1)
        if set(kw) - {'type'} or len(args) > 2:
            raise Unsupported('dst with extra arguments %r' % (sorted(kw),))
        if typ not in (2, 3):
            raise Unsupported('dst type %r' % (typ,))
        if not isinstance(a, SArr) or len(a.shape) != 1:
            raise Unsupported('dst of a non 1-D array')
        n = a.shape[0]
        # Assumed contract of scipy.fftpack.dst: a function of (type, input array).  Calls are matched by
        # ordinal between the code run and the contract run; the Comparer proves the matched inputs equal
        # pointwise, which justifies (by congruence) giving matched calls the same result symbol.
        calls = ip.st.ext_calls
        k = len(calls)
        res = z3.Const('dst%d!call%d' % (typ, k), z3.ArraySort(z3.IntSort(), z3.RealSort()))
        calls.append(('dst%d' % typ, a.snapshot(ip.st), (n,)))
        return ip.st.new_array((n,), lambda idx: z3.Select(res, to_int(idx[0])))

    # spec-language helpers ------------------------------------------------------
    @reg('builtins.pointwise')
    def _pointwise(ip, args, kw):
        shp, f = args
        shp = shape_arg(shp)
        dtype = kw.get('dtype', 'real')
        fz = freeze(ip, f)
        return ip.st.new_array(shp, lambda idx: fz(idx), dtype)

    @reg('builtins.require')
    def _require(ip, args, kw):
        c = args[0]
        if ip.spec_depth_call > 0 and not getattr(ip, 'is_spec_run', False):
            # the code under proof calls a function through its contract: the callee's precondition is an obligation
            # of this call site (to be shown from what is known here plus the preconditions of the caller's own contract)
            ip.st.call_obligations.append((kw.get('name', 'callee-precondition'), list(ip.st.pc), c))
            ip.st.assume(c)
        elif ip.spec_depth_call > 0:
            # the caller's *contract* uses the callee: the callee's precondition is inherited by the caller's contract
            ip.st.inherited = getattr(ip.st, 'inherited', [])
            ip.st.inherited.append(to_bool(c) if not isinstance(c, bool) else c)
            ip.st.assume(c)
        else:
            ip.st.assume(c)
        return None

    @reg('builtins.exp')
    def _sexp(ip, args, kw):
        r = yield from ip.transcendental('exp', args[0])
        return r

    @reg('builtins.log')
    def _slog(ip, args, kw):
        r = yield from ip.transcendental('log', args[0])
        return r

    @reg('builtins.sqrt')
    def _ssqrt(ip, args, kw):
        r = yield from ip.transcendental('sqrt', args[0])
        return r

    @reg('builtins.sin')
    def _ssin(ip, args, kw):
        r = yield from ip.transcendental('sin', args[0])
        return r

    @reg('builtins.PI')
    def _pi(ip, args, kw):
        return PI

    @reg('builtins.fresh_copy')
    def _fresh_copy(ip, args, kw):
        return ip.copy_array(args[0])

    @reg('builtins.quad_at_zero')
    def _quad0(ip, args, kw):
        x, y = args
        xs = [x.elem(ip.st, (i,)) for i in range(3)]
        ys = [y.elem(ip.st, (i,)) for i in range(3)]
        return lagrange0(xs, ys)

    @reg('builtins.dst2')
    def _sdst2(ip, args, kw):
        return _dst(ip, [args[0]], {'type': 2})

    @reg('builtins.dst3')
    def _sdst3(ip, args, kw):
        return _dst(ip, [args[0]], {'type': 3})

    @reg('builtins.matinv')
    def _smatinv(ip, args, kw):
        return _inv(ip, args, kw)

    @reg('builtins.ipow')
    def _sipow(ip, args, kw):
        return ip.power(args[0], args[1])

    @reg('scipy.optimize.root')
    def _root(ip, args, kw):
        """Assumed contract of scipy.optimize.root(F, x0, ...) for vector problems (DESIGN A5, R1/R2): it evaluates F
        a finite number of times and the *last* evaluation is at the returned point x, with fun = F(x).  Modelled as
        one evaluation at an arbitrary trial vector (so that any dependence of F on state left by earlier
        evaluations is exposed) followed by the final evaluation at an arbitrary x."""
        F = args[0]
        x0 = ip.unopt(args[1])
        if len(args) > 2:
            raise Unsupported('scipy.optimize.root with more positional arguments')
        for bad in ('args', 'jac', 'tol', 'callback'):
            if kw.get(bad) is not None:
                raise Unsupported('scipy.optimize.root(%s=...)' % bad)
        if is_num(x0) or (is_sym(x0) and not z3.is_bool(x0)):
            n = 1                   # a scalar start value: scipy works on the 1-vector [x0]
        elif isinstance(x0, SArr) and len(x0.shape) == 1:
            n = x0.shape[0]
        else:
            raise Unsupported('scipy.optimize.root with a non-vector initial guess')
        ip.st.root_calls = getattr(ip.st, 'root_calls', 0) + 1
        k = ip.st.root_calls

        def sym_vec(tag):
            f = z3.Function('root!%d!%s' % (k, tag), z3.IntSort(), z3.RealSort())
            return ip.st.new_array((n,), lambda idx: f(to_int(idx[0])))
        xa = sym_vec('trial')
        yield from ip.call(F, [xa], {})
        xs = sym_vec('x')
        fs = yield from ip.call(F, [xs], {})
        # the solver settings are part of the call: they are remembered in the (ghost) fields _method/_options so that
        # code which drops or replaces the caller's method / options differs from the contract
        return I.SRecord('OptimizeResult', x=xs, fun=fs, success=z3.Bool('root!%d!success' % k),
                         _method=kw.get('method', 'hybr'), _options=kw.get('options', None))

    @reg('builtins.koyama_w')
    def _koyama_w(ip, args, kw):
        k, n, p = args
        f = z3.Function('koyama_w', z3.RealSort(), z3.IntSort(), z3.RealSort(), z3.RealSort(), z3.RealSort(), z3.RealSort())
        return f(to_real(k), to_int(n), to_real(p[0]), to_real(p[1]), to_real(p[2]))

    @reg('builtins.allclose')
    def _sallclose(ip, args, kw):
        return _allclose(ip, args, kw)

    @reg('builtins.loadtxt')
    def _sloadtxt(ip, args, kw):
        return _loadtxt(ip, args, kw)

    @reg('builtins.is_none')
    def _isnone(ip, args, kw):
        return ip.identical(args[0], None)

    @reg('builtins.elementwise')
    def _selementwise(ip, args, kw):
        op = args[0]
        fz = freeze(ip, op)

        def f(*xs):
            return fz(xs)
        r = yield from ip.elementwise(f, list(args[1:]), None)
        return r          # scalars stay scalars (as in pyvc.api.elementwise)

    @reg('builtins.inplace_elementwise')
    def _sinplace(ip, args, kw):
        op, a, b = args
        b = ip.unopt(b)
        if isinstance(b, (list, tuple)):
            b = ip.as_array(b)
        fz = freeze(ip, op)

        def f(x, y):
            return fz((x, y))
        if isinstance(b, SArr):
            shape, mappers = ip.broadcast([a.shape, b.shape])
            if len(shape) != len(a.shape):
                raise SymRaise('ValueError', 'non-broadcastable output operand')
            for x, y in zip(shape, a.shape):
                if not ip.dims_equal(x, y):
                    raise SymRaise('ValueError', 'non-broadcastable output operand')
            cs, bs, mp = a.snapshot(ip.st), b.snapshot(ip.st), mappers[1]
            store_write(ip.st, a, lambda vi: f(cs(vi), bs(mp(vi))))
        else:
            cs = a.snapshot(ip.st)
            store_write(ip.st, a, lambda vi: f(cs(vi), b))
        return None

    @reg('builtins.broadcast_to')
    def _sbroadcast_to(ip, args, kw):
        val, shape = args
        shape = shape_arg(shape)
        val = ip.unopt(val)
        if isinstance(val, (list, tuple)):
            val = ip.as_array(val)
        if not isinstance(val, SArr):
            if not (is_num(val) or is_boolish(val)):
                raise Unsupported('broadcast_to of %r' % (val,))
            return ip.st.new_array(shape, lambda idx: val)
        res, mappers = ip.broadcast([shape, val.shape])
        if len(res) != len(shape):
            raise SymRaise('ValueError', 'could not broadcast input array')
        for x, y in zip(res, shape):
            if not ip.dims_equal(x, y):
                raise SymRaise('ValueError', 'could not broadcast input array')
        vs, mp = val.snapshot(ip.st), mappers[1]
        return ip.st.new_array(shape, lambda idx: vs(mp(idx)), val.dtype)

    @reg('builtins.update')
    def _supdate(ip, args, kw):
        arr, f = args
        fz = freeze(ip, f)
        store_write(ip.st, arr, lambda idx: fz(idx))
        return None

    ip.spec_depth_call = 0

    # pint quantity algebra + spec-language helpers for quantities
    from . import units
    units.install(ip, M, I)
    units.install_builtins(M, I)

    @reg('builtins.array_sum')
    def _array_sum(ip, args, kw):
        lo, hi, fn = args
        if not (is_sym(lo) or is_sym(hi)):
            acc = None
            for t in range(int(lo), int(hi)):
                v = yield from ip.call(fn, [t], {})
                acc = v if acc is None else (yield from ip.binop(ast.Add, acc, v))
            if acc is None:
                raise Unsupported('array_sum over an empty concrete range')
            return acc

        def thunk(itv):
            v = yield from ip.call(fn, [itv], {})
            return v
        r = yield from ip.summarise_sum(lo, hi, thunk)
        return r

    @reg('builtins.make_qty')
    def _make_qty(ip, args, kw):
        regy, mag, unit = args
        return units.reg_quantity(ip, regy, mag, unit, I)


def freeze(ip, f):
    """Capture the state `f` sees *now* (store, heap, local variables): spec-language array
    constructors are eager in Python, while the symbolic arrays evaluate their element terms lazily."""
    from . import interp as I
    store = dict(ip.st.store)
    heap = {k: dict(v) for k, v in ip.st.heap.items()}

    def snap_env(e):
        if e is None:
            return None
        if e.module is not None and e is e.module.env:
            return e
        n = I.Env(parent=snap_env(e.parent), module=e.module)
        n.vars = dict(e.vars)
        return n
    if isinstance(f, I.SFunc):
        f = I.SFunc(f.node, f.module, snap_env(f.env), f.cls, f.name, f.is_spec)

    def call(args):
        st = ip.st
        cur_store, cur_heap = st.store, st.heap
        st.store, st.heap = dict(store), {k: dict(v) for k, v in heap.items()}
        ip.term_mode += 1
        try:
            return I.run_to_completion(ip.call(f, list(args), {}))
        finally:
            ip.term_mode -= 1
            st.store, st.heap = cur_store, cur_heap
    return call


class SSet(object):
    def __init__(self, items, concrete=False):
        self.items = items
        self.concrete = concrete


def _setlen(ip, s):
    if s.concrete:
        return len(s.items)
    n = 0
    for i, x in enumerate(s.items):
        dup = mk_or(*[mk_eq(x, y) for y in s.items[:i]]) if i else False
        n = mk_add(n, mk_ite(dup, 0, 1) if is_sym(dup) else (0 if dup else 1))
    return n


def lagrange0(xs, ys):
    """Value at 0 of the quadratic through (xs[i], ys[i]), i = 0..2 (assumed contract of polyfit/poly1d)."""
    x0, x1, x2 = [to_real(x) for x in xs]
    y0, y1, y2 = [to_real(y) for y in ys]
    return (y0 * (x1 * x2) / ((x0 - x1) * (x0 - x2)) +
            y1 * (x0 * x2) / ((x1 - x0) * (x1 - x2)) +
            y2 * (x0 * x1) / ((x2 - x0) * (x2 - x1)))


def poly_call(ip, p, args):
    (x,) = args
    if is_sym(x) or x != 0:
        raise Unsupported('fitted polynomial evaluated away from 0')
    return lagrange0(p.xs, p.ys)


_DST = {}


def dst_fun(typ):
    if typ not in _DST:
        A = z3.ArraySort(z3.IntSort(), z3.RealSort())
        _DST[typ] = z3.Function('dst%d' % typ, A, z3.IntSort(), A)
    return _DST[typ]


def array_term(ip, a, mapper=None):
    """1-D array value as a z3 Array(Int, Real) term (eta-reduced when possible)."""
    i = z3.Int('eta!i')
    idx = (i,) if mapper is None else mapper((i,))
    body = to_real(a.elem(ip.st, idx))
    body = z3.simplify(body)
    # eta reduction: (lambda i. select(X, i)) == X when i does not occur in X
    if z3.is_select(body) and body.arg(1).eq(i):
        X = body.arg(0)
        if not _occurs(i, X):
            return X
    return z3.Lambda([i], body)


def _occurs(v, t):
    seen = set()
    todo = [t]
    while todo:
        x = todo.pop()
        if x.get_id() in seen:
            continue
        seen.add(x.get_id())
        if x.eq(v):
            return True
        if z3.is_quantifier(x):
            todo.append(x.body())
        else:
            todo.extend(x.children())
    return False


_INV = {}


def inverse_fn(ip, sa, n):
    """Pointwise contents of np.linalg.inv for a stack of n x n matrices (assumed contract:
    inv(A) A == A inv(A) == I whenever A is invertible).  The inverse is an uninterpreted
    function of the n*n entries, so equal matrices have equal inverses."""
    R = z3.RealSort()
    fs = {}
    for i in range(n):
        for j in range(n):
            key = (n, i, j)
            if key not in _INV:
                _INV[key] = z3.Function('inv%d_%d%d' % (n, i, j), *([R] * (n * n) + [R]))
            fs[(i, j)] = _INV[key]

    def fn(idx):
        l, i, j = idx
        ent = [to_real(sa((l, p, q))) for p in range(n) for q in range(n)]

        def entry(p, q):
            return fs[(p, q)](*ent)
        # axioms at this l
        A = [[ent[p * n + q] for q in range(n)] for p in range(n)]
        for p in range(n):
            for q in range(n):
                s1 = sum((entry(p, k) * A[k][q] for k in range(n)), z3.RealVal(0))
                s2 = sum((A[p][k] * entry(k, q) for k in range(n)), z3.RealVal(0))
                d = z3.RealVal(1 if p == q else 0)
                ip.st.add_fact(z3.simplify(s1) == d)
                ip.st.add_fact(z3.simplify(s2) == d)
        if not is_sym(i) and not is_sym(j):
            return entry(i, j)
        out = None
        for p in range(n):
            for q in range(n):
                c = mk_and(mk_eq(i, p), mk_eq(j, q))
                out = entry(p, q) if out is None else mk_ite(c, entry(p, q), out)
        return out
    return fn


def deepcopy_value(ip, v, memo_):
    from . import interp as I
    if isinstance(v, SObj):
        if v.oid in memo_:
            return memo_[v.oid]
        o = ip.st.new_obj(v.cls)
        memo_[v.oid] = o
        src = ip.st.heap[v.oid]
        dst = ip.st.heap[o.oid]
        for k, x in src.items():
            dst[k] = deepcopy_value(ip, x, memo_)
        return o
    if isinstance(v, SArr):
        key = ('arr', id(v))
        if key in memo_:
            return memo_[key]
        if v.fwd is not None:
            # deepcopy of a view copies the viewed data
            pass
        c = ip.copy_array(v)
        memo_[key] = c
        return c
    if isinstance(v, list):
        key = ('l', id(v))
        if key in memo_:
            return memo_[key]
        out = []
        memo_[key] = out
        out.extend(deepcopy_value(ip, x, memo_) for x in v)
        return out
    if isinstance(v, dict):
        key = ('d', id(v))
        if key in memo_:
            return memo_[key]
        out = {}
        memo_[key] = out
        for k, x in v.items():
            out[k] = deepcopy_value(ip, x, memo_)
        return out
    if isinstance(v, tuple):
        return tuple(deepcopy_value(ip, x, memo_) for x in v)
    if isinstance(v, SRef):
        key = ('r', v.key)
        if key in memo_:
            return memo_[key]
        ip.st.fresh_n += 1
        c = SRef(('copy', ip.st.tag, ip.st.fresh_n), origin=v)
        memo_[key] = c
        return c
    if isinstance(v, SOpt):
        return SOpt(v.isnone, deepcopy_value(ip, v.val, memo_))
    if isinstance(v, I.SFunc):
        # functions (lambdas) are copied by reference by copy.deepcopy
        return v
    if isinstance(v, I.SRecord):
        return I.SRecord(v.kind, **{k: deepcopy_value(ip, x, memo_) for k, x in v.fields.items()})
    return v


# ---------------------------------------------------------------------------
# pint quantity algebra (pyvc/units.py)

def qty_binop(ip, op, a, b):
    from . import units
    return units.qty_binop(ip, op, a, b)


def qty_neg(ip, op, a):
    from . import units
    return units.qty_neg(ip, op, a)


def qty_getattr(ip, obj, name):
    from . import units
    return units.qty_getattr(ip, obj, name)


def qty_getitem(ip, obj, key):
    raise Unsupported('quantity subscript')


def reg_call(ip, reg, args):
    from . import units
    return units.reg_call(ip, reg, args)


def qty_compare(cmp, name, a, b):
    from . import units
    return units.qty_compare(cmp, name, a, b)
