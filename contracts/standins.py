"""Bounded stand-ins (DESIGN "B"): run-time checks of the real code with stated bounds.  They back the *assumed*
contracts on external functions (scipy dst / root, numpy einsum / inv / polyfit) and cover the clauses no contract can
decide (discretisation error, solver convergence, IEEE rounding).  Labelled bounded in the evidence, never counted as
proved; a failing case is reported with its concrete input.
"""
import math
import warnings
import numpy as np
from pyvc.api import standin


def _quiet():
    warnings.simplefilter('ignore')
    np.seterr(all='ignore')


# --------------------------------------------------------------------------- A5: scipy.fftpack.dst (C07, C08, C01, C05, C06)

@standin('scipy-dst-contract', props=['C07', 'C08'])
def s_dst(S):
    from scipy.fftpack import dst
    _quiet()
    rng = np.random.RandomState(S.seed + 1)
    Ns = list(range(1, 65)) + [97, 127, 200, 257, 500, 1024, 1031]
    if S.tier == 'thorough':
        Ns += [int(x) for x in rng.randint(65, 5000, size=40)]
    S.bounds = 'N in 1..64 and %d larger N (primes included); random real arrays; rtol 1e-9' % (len(Ns) - 64)
    for N in Ns:
        x = rng.randn(N)
        y = rng.randn(N)
        n = np.arange(N)
        if N <= 257:
            d2 = np.array([2 * np.sum(x * np.sin(np.pi * (j + 1) * (2 * n + 1) / (2 * N))) for j in range(N)])
            S.case(np.allclose(dst(x, type=2), d2, rtol=1e-9, atol=1e-9 * np.abs(d2).max()), 'dst2-definition N=%d' % N)
            d3 = np.array([(-1) ** i * x[N - 1] + 2 * np.sum(x[:N - 1] * np.sin(np.pi * (n[:N - 1] + 1) * (2 * i + 1) / (2 * N))) for i in range(N)])
            S.case(np.allclose(dst(x, type=3), d3, rtol=1e-9, atol=1e-9 * max(np.abs(d3).max(), 1e-300)), 'dst3-definition N=%d' % N)
        S.case(np.allclose(dst(dst(x, type=2), type=3), 2 * N * x, rtol=1e-9, atol=1e-9), 'dst3(dst2 x)=2N x N=%d' % N)
        S.case(np.allclose(dst(dst(x, type=3), type=2), 2 * N * x, rtol=1e-9, atol=1e-9), 'dst2(dst3 x)=2N x N=%d' % N)
        S.case(np.allclose(dst(2.5 * x - 0.5 * y, type=2), 2.5 * dst(x, type=2) - 0.5 * dst(y, type=2), rtol=1e-9, atol=1e-9), 'dst2 linear N=%d' % N)
        S.case(np.allclose(dst(2.5 * x - 0.5 * y, type=3), 2.5 * dst(x, type=3) - 0.5 * dst(y, type=3), rtol=1e-9, atol=1e-9), 'dst3 linear N=%d' % N)


# --------------------------------------------------------------------------- A5: numpy einsum / inv / polyfit (C13, C05)

@standin('numpy-linear-algebra-contracts', props=['C13', 'C05'])
def s_numpy(S):
    _quiet()
    rng = np.random.RandomState(S.seed + 2)
    S.bounds = 'ranks 1..5, lengths 1..64, well-conditioned random data'
    for rank in range(1, 6):
        for L in (1, 2, 7, 64):
            a = rng.randn(L, rank, rank)
            b = rng.randn(L, rank, rank)
            ref = np.array([a[l] @ b[l] for l in range(L)])
            S.case(np.allclose(np.einsum('lij,ljk->lik', a, b), ref), 'einsum rank=%d L=%d' % (rank, L))
            m = a + 3 * np.eye(rank)
            inv = np.linalg.inv(m)
            S.case(np.allclose(np.einsum('lij,ljk->lik', inv, m), np.eye(rank)[None], atol=1e-8), 'inv rank=%d L=%d' % (rank, L))
            if L > 2:
                try:
                    np.einsum('lij,ljk->lik', a, b[:L - 1])
                    S.case(False, 'einsum accepts unequal lengths rank=%d L=%d' % (rank, L))
                except ValueError:
                    S.case(True, 'einsum refuses unequal lengths')
    for _ in range(50):
        x = np.sort(rng.uniform(0.01, 3, size=3))
        if min(np.diff(x)) < 1e-3:
            continue
        y = rng.randn(3)
        fit = np.poly1d(np.polyfit(x, y, 2))
        lag = (y[0] * x[1] * x[2] / ((x[0] - x[1]) * (x[0] - x[2])) + y[1] * x[0] * x[2] / ((x[1] - x[0]) * (x[1] - x[2])) +
               y[2] * x[0] * x[1] / ((x[2] - x[0]) * (x[2] - x[1])))
        S.case(abs(fit(0) - lag) <= 1e-6 * max(1.0, abs(lag)), 'polyfit(deg 2, 3 points)(0) == Lagrange', {'x': x.tolist(), 'y': y.tolist()})


# --------------------------------------------------------------------------- systems used by the solve-based stand-ins

def _hs_system(eta, N, dr, closure='PercusYevick', kT=1.0, types=('A',), dens=None, diam=None, hard_core=False):
    import pyPRISM
    s = pyPRISM.System(list(types), kT=kT)
    s.domain = pyPRISM.Domain(dr=dr, length=N)
    for i, t in enumerate(types):
        s.diameter[t] = 1.0 if diam is None else diam[i]
        s.density[t] = (6 * eta / np.pi / len(types)) if dens is None else dens[i]
        s.omega[t, t] = pyPRISM.omega.SingleSite()
    for i, a in enumerate(types):
        for b in types[i:]:
            s.potential[a, b] = pyPRISM.potential.HardSphere()
            s.closure[a, b] = getattr(pyPRISM.closure, closure)(apply_hard_core=True) if hard_core else getattr(pyPRISM.closure, closure)()
            if a != b:
                s.omega[a, b] = pyPRISM.omega.NoIntra()
    return s


def _lj_mixture(kT=1.3, N=512, dr=0.1, rho=(0.25, 0.15), diam=(1.0, 1.2), eps=(1.0, 0.7, 0.5)):
    import pyPRISM
    s = pyPRISM.System(['A', 'B'], kT=kT)
    s.domain = pyPRISM.Domain(dr=dr, length=N)
    s.diameter['A'], s.diameter['B'] = diam
    s.density['A'], s.density['B'] = rho
    s.potential['A', 'A'] = pyPRISM.potential.LennardJones(epsilon=eps[0], rcut=2.5, shift=True)
    s.potential['A', 'B'] = pyPRISM.potential.LennardJones(epsilon=eps[1], rcut=2.5, shift=True)
    s.potential['B', 'B'] = pyPRISM.potential.LennardJones(epsilon=eps[2], rcut=2.5, shift=True)
    s.closure[['A', 'B'], ['A', 'B']] = pyPRISM.closure.PercusYevick()
    s.omega['A', 'A'] = pyPRISM.omega.SingleSite()
    s.omega['B', 'B'] = pyPRISM.omega.Gaussian(sigma=1.2, length=8)
    s.omega['A', 'B'] = pyPRISM.omega.NoIntra()
    return s


def _solve(P, guess=None):
    """Solve with the library's default method, falling back to other scipy methods when it fails (which method
    converges is not the subject of any stand-in).  Returns the OptimizeResult or None."""
    for m, opts in (('krylov', {'disp': False, 'maxiter': 200}), ('df-sane', {'disp': False, 'maxfev': 3000}), ('anderson', {'disp': False, 'maxiter': 300})):
        try:
            r = P.solve(guess=guess, method=m, options=opts)
        except Exception:       # noqa
            continue
        if r.success:
            return r
    return None


# --------------------------------------------------------------------------- R1/R2 on scipy.optimize.root (C01, C06)

@standin('scipy-root-last-evaluation-is-the-root', props=['C01', 'C06'])
def s_root(S):
    import copy
    _quiet()
    methods = ['krylov', 'df-sane', 'anderson', 'hybr'] if S.tier == 'thorough' else ['krylov', 'df-sane']
    S.bounds = 'methods %s; 1- and 2-component systems, N<=512' % methods
    for m in methods:
        for mk in (lambda: _hs_system(0.3, 128 if m == 'hybr' else 256, 0.1), lambda: _lj_mixture(N=64 if m == 'hybr' else 256)):
            P = mk().createPRISM()
            try:
                r = P.solve(method=m, options={'disp': False, 'maxiter': 200} if m in ('krylov', 'anderson') else ({'disp': False, 'maxfev': 3000} if m == 'df-sane' else {}))
            except Exception as e:      # noqa: a solver failure is not what this stand-in is about
                S.note += ' %s raised %s;' % (m, type(e).__name__)
                continue
            h = np.copy(P.totalCorr.data)
            c = np.copy(P.directCorr.data)
            y = np.copy(P.y)
            Q = copy.deepcopy(P)
            Q.cost(np.copy(r.x))
            if Q.totalCorr.space.name == 'Fourier':
                Q.sys.domain.MatrixArray_to_real(Q.totalCorr)
            S.case(np.array_equal(h, Q.totalCorr.data) and np.array_equal(c, Q.directCorr.data) and np.array_equal(y, Q.y),
                   'stored arrays == those of cost(result.x) [%s, rank %d]' % (m, P.sys.rank))
            S.case(np.array_equal(np.ravel(r.fun), np.ravel(y)) or np.allclose(np.ravel(r.fun), np.ravel(y), rtol=1e-12, atol=1e-14),
                   'result.fun == cost(result.x) [%s]' % m)


# --------------------------------------------------------------------------- C02: Wertheim-Thiele and the dilute limit

def _wt_c(r, eta):
    l1 = (1 + 2 * eta) ** 2 / (1 - eta) ** 4
    l2 = -(1 + eta / 2) ** 2 / (1 - eta) ** 4
    return np.where(r < 1.0, -(l1 + 6 * eta * l2 * r + 0.5 * eta * l1 * r ** 3), 0.0)


@standin('PY-hard-spheres-vs-Wertheim-Thiele-and-dilute-limit', props=['C02'])
def s_wt(S):
    import pyPRISM
    _quiet()
    etas = [0.1, 0.3, 0.45] if S.tier == 'quick' else [0.05, 0.1, 0.15, 0.2, 0.25, 0.3, 0.35, 0.4, 0.45]
    grids = [(1024, 0.05), (2048, 0.025)] if S.tier == 'quick' else [(512, 0.1), (1024, 0.05), (2048, 0.025), (4096, 0.0125)]
    S.bounds = 'eta in %s; (N,dr) in %s at fixed r_max=51.2; dilute limit rho=1e-6, 4 potentials x {PY,HNC,MSA}, kT in {0.8,1.0,2.5} set through the constructor and by re-assignment' % (etas, grids)
    for eta, flagged in [(e, fl) for e in etas for fl in (False, True)]:
        errs = []
        for N, dr in grids:
            P = _hs_system(eta, N, dr, hard_core=flagged).createPRISM()
            r = _solve(P)
            if r is None:
                S.note += ' no convergence eta=%s dr=%s;' % (eta, dr)
                continue
            dom = P.sys.domain
            g = pyPRISM.calculate.pair_correlation(P)['A', 'A']
            contact = g[np.argmin(np.abs(dom.r - 1.0)) + 1]
            e_contact = abs(contact - (1 + eta / 2) / (1 - eta) ** 2)
            Sk = pyPRISM.calculate.structure_factor(P)['A', 'A']
            e_s0 = abs(Sk[0] - (1 - eta) ** 4 / (1 + 2 * eta) ** 2)
            P.sys.domain.MatrixArray_to_real(P.directCorr) if P.directCorr.space.name == 'Fourier' else None
            c = P.directCorr['A', 'A']
            ii = [int(np.argmin(np.abs(dom.r - x))) for x in (0.25, 0.5, 0.75, 1.5, 2.0, 3.0)]     # fixed r, away from the jump
            e_c = np.max(np.abs(c - _wt_c(dom.r, eta))[ii])
            errs.append((dr, e_contact, e_s0, e_c))
        scale = (1 + 2 * eta) ** 2 / (1 - eta) ** 4          # |c(0)|: sets the size of the discretisation error
        for (dr, ec_, es, ecr) in errs:
            # discretisation error only: bounded by a constant times dr
            S.case(ec_ <= 12 * scale * dr and es <= 3 * dr + 5e-3 and ecr <= 6 * scale * dr, 'WT eta=%s dr=%s%s' % (eta, dr, ' (hard-core flag)' if flagged else ''), {'contact': ec_, 'S0': es, 'c(r)': ecr})
        if len(errs) >= 2:
            # shrinks under refinement: S(0) and c(r) (smooth measures) decrease from the coarsest to the finest grid; the
            # contact value is read off one grid point next to a jump, its error can vanish by accident on one grid, so
            # it is only required not to exceed the largest error of the coarser grids
            S.case(errs[-1][2] <= errs[0][2] * 1.05 + 1e-6 and errs[-1][3] <= errs[0][3] * 1.05 + 1e-6 and
                   errs[-1][1] <= max(e[1] for e in errs[:-1]) * 1.05 + 1e-6, 'WT error does not grow under refinement eta=%s%s' % (eta, ' (hard-core flag)' if flagged else ''), {'errors': errs})
    # dilute limit
    pots = {'HardSphere': lambda: pyPRISM.potential.HardSphere(),
            'LennardJones': lambda: pyPRISM.potential.LennardJones(epsilon=1.0, rcut=3.0, shift=True),
            'WeeksChandlerAndersen': lambda: pyPRISM.potential.WeeksChandlerAndersen(epsilon=1.0),
            'HardCoreLennardJones': lambda: pyPRISM.potential.HardCoreLennardJones(epsilon=0.7)}
    for pname, mkpot in pots.items():
        for cname in ('PercusYevick', 'HyperNettedChain', 'MeanSphericalApproximation'):
            for kT, how in ((1.0, 'ctor'), (2.5, 'ctor'), (0.8, 'reassign')):
                s = pyPRISM.System(['A'], kT=(kT if how == 'ctor' else 1.0))
                if how == 'reassign':
                    s.kT = kT
                s.domain = pyPRISM.Domain(dr=0.05, length=1024)
                s.diameter['A'] = 1.0
                s.density['A'] = 1e-6
                s.potential['A', 'A'] = mkpot()
                s.closure['A', 'A'] = getattr(pyPRISM.closure, cname)(apply_hard_core=True) if cname == 'MeanSphericalApproximation' else getattr(pyPRISM.closure, cname)()
                s.omega['A', 'A'] = pyPRISM.omega.SingleSite()
                P = s.createPRISM()
                res = _solve(P)
                if res is None:
                    S.note += ' no convergence dilute %s/%s;' % (pname, cname)
                    continue
                r = P.sys.domain.r
                u = mkpot()
                u.sigma = 1.0
                ur = u.calculate(r) / kT
                g = pyPRISM.calculate.pair_correlation(P)['A', 'A']
                out = r > 1.0 + 1e-9
                if cname == 'MeanSphericalApproximation':
                    ref = np.where(out, 1 - ur, 0.0)
                else:
                    ref = np.exp(-ur)
                S.case(np.max(np.abs(g - ref)) < 5e-4, 'dilute g(r) %s/%s kT=%s(%s)' % (pname, cname, kT, how), {'max dev': float(np.max(np.abs(g - ref)))})
                if cname != 'MeanSphericalApproximation':
                    B2 = pyPRISM.calculate.second_virial(P)['A', 'A']
                    rm = r - 0.025           # the transform is the midpoint-shifted Riemann sum (C08 lemma)
                    ref2 = -2 * np.pi * np.sum((np.exp(-ur) - 1) * r * rm) * 0.05
                    S.case(abs(B2 - ref2) < 0.05 * max(1.0, abs(ref2)), 'dilute B2 %s/%s kT=%s(%s)' % (pname, cname, kT, how), {'B2': float(B2), 'ref': float(ref2)})


# --------------------------------------------------------------------------- C08: discretisation error of the transforms

@standin('transforms-converge-to-the-continuous-3D-transform', props=['C08'])
def s_refine(S):
    import pyPRISM
    _quiet()
    rmax = 51.2
    drs = [0.1, 0.05, 0.025] if S.tier == 'quick' else [0.1, 0.05, 0.025, 0.0125]
    S.bounds = 'Gaussians (3 widths), exponential/Yukawa, sphere form factor; dr in %s at r_max=%s; 5 fixed k (forward) and 5 fixed r (backward)' % (drs, rmax)
    fams = []
    for a in (0.5, 1.0, 2.0):
        fams.append(('gauss a=%s' % a, lambda r, a=a: np.exp(-a * r * r), lambda k, a=a: (np.pi / a) ** 1.5 * np.exp(-k * k / (4 * a))))
    fams.append(('yukawa', lambda r: np.exp(-1.5 * r) / r, lambda k: 4 * np.pi / (k * k + 1.5 ** 2)))
    fams.append(('exp', lambda r: np.exp(-2.0 * r), lambda k: 8 * np.pi * 2.0 / (k * k + 4.0) ** 2))
    for nm, f, F in fams:
        errs_f, errs_b = [], []
        for dr in drs:
            N = int(round(rmax / dr))
            d = pyPRISM.Domain(dr=dr, length=N)
            kk = np.array([0.5, 1.0, 2.0, 3.0, 5.0])
            idx = [int(np.argmin(np.abs(d.k - x))) for x in kk]
            num = d.to_fourier(f(d.r))
            errs_f.append(max(abs(num[i] - F(d.k[i])) for i in idx) / np.max(np.abs(F(d.k))))        # relative to the size of the transform
            rr = np.array([0.5, 1.0, 1.5, 2.0, 3.0])
            jdx = [int(np.argmin(np.abs(d.r - x))) for x in rr]
            back = d.to_real(F(d.k))
            errs_b.append(max(abs(back[j] - f(d.r[j])) for j in jdx) / np.max(np.abs(f(d.r))))
            S.case(np.allclose(d.to_real(num), f(d.r), rtol=1e-8, atol=1e-10), 'round trip %s dr=%s' % (nm, dr))
        S.case(all(e <= 3.0 * dr for e, dr in zip(errs_f, drs)), 'forward error <= C dr: %s' % nm, {'errors': errs_f})
        S.case(errs_f[-1] <= errs_f[0] + 1e-9, 'forward error decreases under refinement: %s' % nm, {'errors': errs_f})
        S.case(all(e <= 6.0 * dr for e, dr in zip(errs_b, drs)), 'backward error <= C dr: %s' % nm, {'errors': errs_b})
        S.case(errs_b[-1] <= errs_b[0] + 1e-9, 'backward error decreases under refinement: %s' % nm, {'errors': errs_b})
    # prefactors individually: forward of a Gaussian at the lowest k ~ (pi/a)^1.5 (not 2 pi times something)
    d = pyPRISM.Domain(dr=0.0125, length=4096)
    S.case(abs(d.to_fourier(np.exp(-d.r ** 2))[0] - np.pi ** 1.5 * np.exp(-d.k[0] ** 2 / 4)) < 0.05, 'forward prefactor 4 pi (volume integral)')


# --------------------------------------------------------------------------- C11: floating point, quadrature, Koyama moments

@standin('omega-models-in-floating-point', props=['C11'])
def s_omega_fp(S):
    import mpmath
    import pyPRISM
    _quiet()
    mpmath.mp.dps = 40
    ks = np.concatenate([pyPRISM.Domain(dr=0.1, length=64).k, pyPRISM.Domain(dk=0.003, length=32).k, np.logspace(-4, 3, 29 if S.tier == 'quick' else 113)])
    i0, i1 = int(np.argmin(ks)), int(np.argmax(ks))
    Ns = [2, 3, 10, 100] if S.tier == 'quick' else [2, 3, 5, 10, 100, 1000, 10000]
    S.bounds = 'k in logspace(-4,3) + two Domain grids (%d values); N in %s; reference: pair sum in 40-digit arithmetic (mpmath)' % (len(ks), Ns)

    def pair_sum(E, N):
        E = mpmath.mpf(E)
        if N <= 200:
            return (N + 2 * sum((N - n) * E ** n for n in range(1, N))) / N
        if E == 1:
            return mpmath.mpf(N)
        return (1 - E * E - 2 * E / N + 2 * E ** (N + 1) / N) / (1 - E) ** 2      # exact closed form, evaluated in 40 digits

    for N in Ns:
        for nm, obj, Efun in (('Gaussian', pyPRISM.omega.Gaussian(sigma=1.0, length=N), lambda k: mpmath.exp(-mpmath.mpf(k) ** 2 / 6)),
                              ('FreelyJointedChain', pyPRISM.omega.FreelyJointedChain(length=N, l=1.0), lambda k: mpmath.sin(mpmath.mpf(k)) / mpmath.mpf(k))):
            val = obj.calculate(ks)
            for k, v in zip(ks, val):
                ref = float(pair_sum(Efun(float(k)), N))
                ok = np.isfinite(v) and abs(v - ref) <= 1e-6 * max(1.0, abs(ref)) and v <= N * (1 + 1e-9)
                if ok:
                    S.case(True, '')
                else:
                    regime = 'cancellation in (1-E)^2 for k*l <= 0.01' if k <= 0.01 else 'k=%.3g' % k
                    S.case(False, '%s closed form: %s' % (nm, regime), {'N': N, 'k': float(k), 'value': float(v), 'pair sum': ref})
        ring = pyPRISM.omega.GaussianRing(sigma=1.0, length=N) if N <= 1000 else None
        if ring is not None:
            val = ring.calculate(ks)
            for k, v in zip(ks, val):
                ref = float(sum(mpmath.exp(-mpmath.mpf(float(k)) ** 2 * t * (N - t) / (6 * N)) for t in range(N)))
                S.case(np.isfinite(v) and abs(v - ref) <= 1e-8 * max(1.0, ref) and v <= N * (1 + 1e-9), 'GaussianRing N=%d k=%.3g' % (N, k), {'value': float(v), 'ref': ref})
    # trivial models and aliases
    for cls, want in ((pyPRISM.omega.SingleSite, 1.0), (pyPRISM.omega.NoIntra, 0.0), (pyPRISM.omega.InterMolecular, 0.0)):
        S.case(np.all(cls().calculate(ks) == want), '%s constant' % cls.__name__)
    # DiscreteKoyama and NFJC: finite, <= N, limits, value independent of the other k in the array
    for N in ([4, 20] if S.tier == 'quick' else [2, 4, 20, 100]):
        for lp in (4.0 / 3.0 * 1.0005, 2.0, 5.0):
            dk = pyPRISM.omega.DiscreteKoyama(sigma=1.0, l=1.0, length=N, lp=lp)
            v = dk.calculate(ks)
            S.case(np.all(np.isfinite(v)) and np.all(v <= N * (1 + 1e-6)), 'DiscreteKoyama finite and <= N (N=%d, lp=%.3g)' % (N, lp), {'max': float(np.max(v))})
            S.case(abs(v[i0] - N) <= 1e-3 * N and abs(v[i1] - 1.0) <= 1e-2, 'DiscreteKoyama limits (N=%d, lp=%.3g)' % (N, lp), {'k->0': float(v[i0]), 'k->inf': float(v[i1])})
            S.case(np.allclose(dk.calculate(ks[::3]), v[::3], rtol=1e-12), 'DiscreteKoyama value at k independent of the other k')
        nf = pyPRISM.omega.NonOverlappingFreelyJointedChain(length=N, l=1.0)
        v = nf.calculate(ks)
        big = ks > 0.01
        S.case(np.all(np.isfinite(v[big])) and np.all(v[big] <= N * (1 + 1e-3)), 'NFJC finite and <= N for k > 0.01 (N=%d)' % N, {'max': float(np.nanmax(v[big]))})
        if not (np.all(np.isfinite(v[~big])) and np.all(v[~big] <= N * (1 + 1e-3)) and np.all(v[~big] >= N * 0.98)):
            # NFJC adds FreelyJointedChain.calculate(k): it inherits that closed form's cancellation
            S.case(False, 'FreelyJointedChain closed form: cancellation in (1-E)^2 for k*l <= 0.01', {'model': 'NonOverlappingFreelyJointedChain', 'N': N,
                                                                                           'values': [float(x) for x in v[~big][:4]]})
        ik = int(np.argmin(np.abs(ks - 0.05)))
        S.case(abs(v[ik] - N) <= 0.05 * N and abs(v[i1] - 1.0) <= 5e-2, 'NFJC limits (N=%d)' % N, {'k=0.05': float(v[ik]), 'k->inf': float(v[i1])})
    for bad in ((1.0, 0.4), (1.0, 0.5)):
        try:
            pyPRISM.omega.DiscreteKoyama(sigma=bad[0], l=bad[1], length=10, lp=3.0)
            S.case(False, 'DiscreteKoyama accepts overlapping neighbours l=%s' % bad[1])
        except ValueError:
            S.case(True, '')


# --------------------------------------------------------------------------- C06: histories on solved objects

@standin('post-processing-histories-on-solved-objects', props=['C06'])
def s_histories(S):
    import copy
    import itertools
    import pyPRISM
    _quiet()
    rng = np.random.RandomState(S.seed + 6)
    ops = {
        'pair_correlation': lambda P: pyPRISM.calculate.pair_correlation(P).data,
        'structure_factor': lambda P: pyPRISM.calculate.structure_factor(P).data,
        'structure_factor(normalize=False)': lambda P: pyPRISM.calculate.structure_factor(P, normalize=False).data,
        'second_virial': lambda P: _tab(pyPRISM.calculate.second_virial(P)),
        'second_virial(extrapolate=False)': lambda P: _tab(pyPRISM.calculate.second_virial(P, extrapolate=False)),
        'chi': lambda P: _tab(pyPRISM.calculate.chi(P)),
        'chi(extrapolate=False)': lambda P: _tab(pyPRISM.calculate.chi(P, extrapolate=False)),
        'spinodal_condition': lambda P: _tab(pyPRISM.calculate.spinodal_condition(P)),
        'solvation_potential(HNC)': lambda P: pyPRISM.calculate.solvation_potential(P, closure='HNC').data,
        'solvation_potential(PY)': lambda P: pyPRISM.calculate.solvation_potential(P, closure='PY').data,
        'flip totalCorr': lambda P: _flip(P, 'totalCorr'),
        'flip directCorr': lambda P: _flip(P, 'directCorr'),
        'flip omega': lambda P: _flip(P, 'omega'),
    }
    names = sorted(ops)
    depth = 2 if S.tier == 'quick' else 3
    nrand = 10 if S.tier == 'quick' else 300
    S.bounds = 'solved 2-component LJ mixture and 3-component hard-sphere mixture; all sequences of length <= %d over %d operations + %d random sequences of length 6; each result vs a fresh copy of the solved object (rtol 1e-7)' % (depth, len(names), nrand)
    for mk in (lambda: _lj_mixture(N=256), lambda: _hs_system(0.3, 256, 0.1, types=('A', 'B', 'C'), dens=(0.2, 0.15, 0.1), diam=(1.0, 1.2, 0.8))):
        P0 = mk().createPRISM()
        r = _solve(P0)
        if r is None:
            S.note += ' base solve failed;'
            continue
        ref = {}
        for nm in names:
            ref[nm] = ops[nm](copy.deepcopy(P0))
        seqs = [s for d in range(1, depth + 1) for s in itertools.product(names, repeat=d)]
        if S.tier == 'quick':
            seqs = [s for s in seqs if len(s) == 1] + [seqs[i] for i in rng.choice(len(seqs), size=min(120, len(seqs)), replace=False)]
        seqs += [tuple(rng.choice(names, size=6)) for _ in range(nrand)]
        for seq in seqs:
            P = copy.deepcopy(P0)
            ok, where = True, None
            try:
                for nm in seq:
                    out = ops[nm](P)
                    if out is not None and not _same(out, ref[nm]):
                        ok, where = False, nm
                        break
            except Exception as e:      # noqa
                ok, where = False, '%s raised %s' % (nm, type(e).__name__)
            S.case(ok, 'history %s: %s' % (' -> '.join(seq), where), None if ok else {'rank': P0.sys.rank})


def _tab(t):
    return np.array([[np.nan if t.values[a][b] is None else np.ravel(t.values[a][b])[0] for b in t.types] for a in t.types], dtype=float)


def _flip(P, name):
    M = getattr(P, name)
    if M.space.name == 'Real':
        P.sys.domain.MatrixArray_to_fourier(M)
    else:
        P.sys.domain.MatrixArray_to_real(M)
    return None


def _same(a, b):
    a, b = np.asarray(a, dtype=float), np.asarray(b, dtype=float)
    if a.shape != b.shape:
        return False
    m = np.isfinite(a) & np.isfinite(b)
    if not np.array_equal(np.isnan(a), np.isnan(b)):
        return False
    scale = max(np.max(np.abs(b[m])) if m.any() else 1.0, 1e-12)
    return bool(np.all(np.abs(a[m] - b[m]) <= 1e-7 * scale + 1e-9 * np.abs(b[m])))


# --------------------------------------------------------------------------- C04 / C16: paired solves

@standin('reformulations-and-sweeps-give-the-same-solution', props=['C04', 'C16'])
def s_paired(S):
    import pyPRISM
    _quiet()
    S.bounds = 'LJ systems, N=512, dr=0.1: permutation of 2 types, A/A\' split at 3 ratios x kT in {1.0,1.7}, energy scaling by {0.4,2.5}, and a 4-step parameter sweep on one System vs fresh Systems; rtol 1e-5'

    def lj(types, rho, kT, eps_scale=1.0, diam=None, eps=None):
        s = pyPRISM.System(list(types), kT=kT * eps_scale)
        s.domain = pyPRISM.Domain(dr=0.1, length=512)
        for i, t in enumerate(types):
            s.diameter[t] = 1.0 if diam is None else diam[t]
            s.density[t] = rho[t]
        for i, a in enumerate(types):
            for b in types[i:]:
                e = 1.0 if eps is None else eps[frozenset((a, b))]
                s.potential[a, b] = pyPRISM.potential.LennardJones(epsilon=e * eps_scale, rcut=2.5, shift=True)
                s.closure[a, b] = pyPRISM.closure.PercusYevick()
                s.omega[a, b] = pyPRISM.omega.SingleSite() if a == b else pyPRISM.omega.NoIntra()
        return s

    def g_of(s):
        P = s.createPRISM()
        r = _solve(P)
        return (pyPRISM.calculate.pair_correlation(P) if r is not None else None), P

    eps = {frozenset(('A',)): 1.0, frozenset(('B',)): 0.6, frozenset(('A', 'B')): 0.8}
    diam = {'A': 1.0, 'B': 1.2}
    rho = {'A': 0.3, 'B': 0.2}
    g1, _ = g_of(lj(('A', 'B'), rho, 1.4, diam=diam, eps=eps))
    g2, _ = g_of(lj(('B', 'A'), rho, 1.4, diam=diam, eps=eps))
    if g1 is not None and g2 is not None:
        S.case(all(np.allclose(g1[a, b], g2[a, b], rtol=1e-5, atol=1e-6) for a in 'AB' for b in 'AB'), 'permutation of the type list')
    for kT in (1.0, 1.7):
        gu, _ = g_of(lj(('A',), {'A': 0.5}, kT))
        for x in (0.5, 0.3, 0.85):
            gs, _ = g_of(lj(('A', 'B'), {'A': 0.5 * x, 'B': 0.5 * (1 - x)}, kT))
            if gu is not None and gs is not None:
                S.case(all(np.allclose(gs[a, b], gu['A', 'A'], rtol=1e-5, atol=2e-5) for a in 'AB' for b in 'AB'), 'A/A\' split x=%s kT=%s' % (x, kT),
                       {'max dev': float(max(np.max(np.abs(gs[a, b] - gu['A', 'A'])) for a in 'AB' for b in 'AB'))})
    g0, P0 = g_of(lj(('A', 'B'), rho, 1.4, diam=diam, eps=eps))
    for lam in (0.4, 2.5):
        gl, Pl = g_of(lj(('A', 'B'), rho, 1.4, eps_scale=lam, diam=diam, eps=eps))
        if g0 is not None and gl is not None:
            S.case(all(np.allclose(g0[a, b], gl[a, b], rtol=1e-5, atol=1e-6) for a in 'AB' for b in 'AB'), 'energy scaling by %s leaves g unchanged' % lam)
            w0, wl = pyPRISM.calculate.pmf(P0).data, pyPRISM.calculate.pmf(Pl).data
            m = np.isfinite(w0) & np.isfinite(wl) & (np.abs(w0) > 1e-6)
            S.case(np.allclose(wl[m], lam * w0[m], rtol=1e-4, atol=1e-6), 'potentials of mean force scale by %s' % lam)
    # sweep on one System vs fresh Systems (C16)
    s = lj(('A', 'B'), rho, 1.4, diam=diam, eps=eps)
    steps = [('density', 'A', 0.35), ('kT', None, 1.9), ('diameter', 'B', 1.0), ('potential', ('A', 'B'), 0.5)]
    cur = dict(rho=dict(rho), kT=1.4, diam=dict(diam), eps=dict(eps))
    for what, key, val in steps:
        if what == 'density':
            s.density[key] = val
            cur['rho'][key] = val
        elif what == 'kT':
            s.kT = val
            cur['kT'] = val
        elif what == 'diameter':
            s.diameter[key] = val
            cur['diam'][key] = val
        else:
            s.potential[key[0], key[1]] = pyPRISM.potential.LennardJones(epsilon=val, rcut=2.5, shift=True)
            cur['eps'][frozenset(key)] = val
        ga, Pa = g_of(s)
        gb, Pb = g_of(lj(('A', 'B'), cur['rho'], cur['kT'], diam=cur['diam'], eps=cur['eps']))
        if ga is not None and gb is not None:
            S.case(all(np.allclose(ga[a, b], gb[a, b], rtol=1e-5, atol=1e-6) for a in 'AB' for b in 'AB'), 'sweep step %s=%s equals a fresh System' % (what, val))


# --------------------------------------------------------------------------- C15: numeric values of other Python types

def _num(x):
    try:
        return float(x)
    except (TypeError, ValueError):
        return None          # unset / not a number: reported as a mismatch, not a crash


@standin('density-diameter-histories-with-numpy-valued-assignments', props=['C15'])
def s_valuekinds(S):
    """The contracts quantify over real numbers; what the *kind* of number object does (a 0-d array is mutable, a numpy
    scalar or an int is not) is outside the value model of the executor.  Bounded: random assignment histories with
    every kind, compared with float references after every step."""
    import itertools
    import pyPRISM
    _quiet()
    rng = np.random.RandomState(S.seed)
    kinds = {'float': float, 'np.float64': np.float64, '0-d array': lambda v: np.array(v), 'int': lambda v: int(round(3 * v)) + 1,
             'np.asarray': lambda v: np.asarray(v, dtype=float)}
    n_hist = 120 if S.tier == 'quick' else 1500
    S.bounds = '%d random assignment histories (1-4 types, 1-8 steps incl. re-assignment and list keys) x value kinds %s; all derived quantities compared after every step, rtol 1e-12' % (n_hist, sorted(kinds))
    for h in range(n_hist):
        n = int(rng.randint(1, 5))
        types = ['C', 'A', 'D', 'B'][:n]
        kind = sorted(kinds)[h % len(kinds)]
        rho, dia = pyPRISM.Density(list(types)), pyPRISM.Diameter(list(types))
        ref_r, ref_d, held = {}, {}, []
        ok, where = True, ''
        for step in range(int(rng.randint(1, 9))):
            key = types[int(rng.randint(n))] if rng.rand() < 0.8 else [t for t in types if rng.rand() < 0.6]
            vr, vd = float(rng.uniform(0.05, 1.0)), float(rng.uniform(0.5, 2.0))
            obj_r, obj_d = kinds[kind](vr), kinds[kind](vd)
            fr, fd = float(obj_r), float(obj_d)
            held.append((obj_r, fr))
            held.append((obj_d, fd))
            rho[key] = obj_r
            dia[key] = obj_d
            for t in ([key] if isinstance(key, str) else key):
                ref_r[t], ref_d[t] = fr, fd
            chk = []
            for t in types:
                if t in ref_r:
                    chk.append(('rho[%s]' % t, _num(rho[t]), ref_r[t]))
                    chk.append(('d[%s]' % t, _num(dia[t]), ref_d[t]))
                    chk.append(('volume[%s]' % t, _num(dia.volume[t]), np.pi * ref_d[t] ** 3 / 6))
            chk.append(('total', float(rho.total), sum(ref_r.values())))
            for a, b in itertools.product(ref_r, repeat=2):
                chk.append(('pair[%s,%s]' % (a, b), float(rho.pair[a, b][0]), ref_r[a] * ref_r[b]))
                chk.append(('site[%s,%s]' % (a, b), float(rho.site[a, b][0]), ref_r[a] if a == b else ref_r[a] + ref_r[b]))
                chk.append(('sigma[%s,%s]' % (a, b), _num(dia.sigma[a, b]), (ref_d[a] + ref_d[b]) / 2))
            for o, v0 in held:
                chk.append(("the caller's own value object", float(o), v0))
            bad = [c for c in chk if c[1] is None or not abs(c[1] - c[2]) <= 1e-12 * max(1.0, abs(c[2]))]
            if bad:
                ok, where = False, '%s = %r, expected %r after step %d (key %r)' % (bad[0][0], bad[0][1], bad[0][2], step, key)
                break
        S.case(ok, 'Density/Diameter derived quantities with %s values' % kind, None if ok else {'types': types, 'first': where})


# --------------------------------------------------------------------------- contracts monitored on the repository's test-suite

@standin('contracts-monitored-on-the-repository-test-suite',
         props=['C01', 'C03', 'C05', 'C06', 'C07', 'C09', 'C10', 'C12', 'C13', 'C14', 'C15', 'C16'], thorough_only=True)
def s_monitor(S):
    """Thorough tier only: every contract installed as a run-time wrapper while the 59 repository tests run."""
    if S.tier != 'thorough':
        S.bounds = 'thorough tier only'
        S.case(True, '')
        return
    import io
    import contextlib
    from pyvc import api, monitor
    _quiet()
    monitor.STATE.update({'depth': 0, 'calls': {}, 'mismatches': [], 'skipped': {}})
    undo = monitor.install(api.CONTRACTS)
    buf = io.StringIO()
    try:
        with contextlib.redirect_stdout(buf), contextlib.redirect_stderr(buf):
            rc = monitor.run_test_suite(S.repo)
    finally:
        for u in undo:
            u()
    calls = monitor.STATE['calls']
    S.bounds = 'the calls made by the repository test-suite (pytest rc=%d): %d monitored functions, %d contract evaluations' % (
        rc, len(calls), sum(calls.values()))
    S.note = 'evaluations per function: ' + ', '.join('%s=%d' % (k.split('::')[1], v) for k, v in sorted(calls.items(), key=lambda kv: -kv[1])[:12])
    S.cases += sum(calls.values())
    S.case(rc == 0, 'repository test-suite passes with the monitors installed', {'pytest rc': rc, 'tail': buf.getvalue()[-600:]})
    seen = set()
    for m in monitor.STATE['mismatches']:
        q = m['target'].split('::')[1]
        if 'MartynovSarkisov.calculate' in q:
            continue          # the recorded C09 finding (known_findings.txt); its precise form is decided by the C09 check
        ident = 'contract and code disagree on a call made by the test-suite: %s' % q
        if ident in seen:
            continue
        seen.add(ident)
        S.case(False, ident, m)
