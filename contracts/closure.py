"""Contracts for pyPRISM/closure/*.py  (properties C09, C03; callee contracts for C01).

Spec functions are written from the property statements (C09: the published
closure relations; C03: value + gamma == -1 inside the core), pointwise.
"""
from pyvc.api import *


# --------------------------------------------------------------------------- spec functions F(gamma, u)

def F_PY(g, u):
    return (exp(-u) - 1.0) * (1.0 + g)


def F_HNC(g, u):
    return exp(g - u) - 1.0 - g


def F_MSA(g, u):
    return -u


def F_MS(g, u):
    # Martynov & Sarkisov (1983): B(r) = sqrt(1 + 2 (gamma - u)) - 1 - (gamma - u);  c = exp(-u + gamma + B) - 1 - gamma
    return exp(sqrt(1.0 + 2.0 * (g - u)) - 1.0) - 1.0 - g


# --------------------------------------------------------------------------- calculate(r, gamma)

# C03 is only about the core: "at each individual evaluation ... the closure output satisfies c + gamma = -1 there
# exactly".  For C03 the closure obligations are therefore the core clause on the code's own post-state (and that a
# flagged closure evaluates at all), not the full refinement against F (that is C09).
C03_ONLY = {'C03': ['post_body: core*', 'outcome*']}


def _core_post(f, args, res):
    """Clauses of C03/C09 stated directly on the code's post-state (both factories)."""
    self, r, gamma = args['self'], args['r'], args['gamma']
    if not f.getattr(self, 'apply_hard_core'):
        return []
    sigma = f.getattr(self, 'sigma')
    n = gamma.shape[0]
    return [('core: value[i] + gamma[i] == -1 wherever r[i] <= sigma',
             f.forall(n, lambda i: f.implies(f.elem(r, (i,)) <= sigma, f.eq(f.elem(res, (i,)) + f.elem(gamma, (i,)), -1)))),
            ('core: stored value is the returned array', f.getattr(self, 'value') is res)]


@contract('pyPRISM/closure/PercusYevick.py::PercusYevick.calculate', props=['C09', 'C03', 'C01', 'C02'], only=C03_ONLY)
def PercusYevick_calculate(self, r, gamma):
    if self.potential is None:
        raise AssertionError
    if len(gamma) != len(self.potential):
        raise AssertionError
    u = self.potential
    if self.apply_hard_core:
        if self.sigma is None:
            raise AssertionError
        sigma = self.sigma
        self.value = pointwise(len(gamma), lambda i: (-1 - gamma[i]) if r[i] <= sigma else F_PY(gamma[i], u[i]))
    else:
        self.value = pointwise(len(gamma), lambda i: F_PY(gamma[i], u[i]))
    return self.value


@contract('pyPRISM/closure/HyperNettedChain.py::HyperNettedChain.calculate', props=['C09', 'C03', 'C01', 'C02'], only=C03_ONLY)
def HyperNettedChain_calculate(self, r, gamma):
    if self.potential is None:
        raise AssertionError
    if len(gamma) != len(self.potential):
        raise AssertionError
    u = self.potential
    if self.apply_hard_core:
        if self.sigma is None:
            raise AssertionError
        sigma = self.sigma
        self.value = pointwise(len(gamma), lambda i: (-1 - gamma[i]) if r[i] <= sigma else F_HNC(gamma[i], u[i]))
    else:
        self.value = pointwise(len(gamma), lambda i: F_HNC(gamma[i], u[i]))
    return self.value


@contract('pyPRISM/closure/MeanSphericalApproximation.py::MeanSphericalApproximation.calculate', props=['C09', 'C03', 'C01', 'C02'], only=C03_ONLY)
def MeanSphericalApproximation_calculate(self, r, gamma):
    if self.potential is None:
        raise AssertionError
    if len(gamma) != len(self.potential):
        raise AssertionError
    u = self.potential
    if self.apply_hard_core:
        require(self.sigma is not None)       # PRISM.__init__ always assigns sigma before calculate is called
        sigma = self.sigma
        self.value = pointwise(len(gamma), lambda i: (-1 - gamma[i]) if r[i] <= sigma else F_MSA(gamma[i], u[i]))
    else:
        self.value = pointwise(len(gamma), lambda i: F_MSA(gamma[i], u[i]))
    return self.value


@contract('pyPRISM/closure/MartynovSarkisov.py::MartynovSarkisov.calculate', props=['C09', 'C03', 'C01'], only=C03_ONLY)
def MartynovSarkisov_calculate(self, r, gamma):
    if self.potential is None:
        raise AssertionError
    if len(gamma) != len(self.potential):
        raise AssertionError
    u = self.potential
    if self.apply_hard_core:
        if self.sigma is None:
            raise AssertionError
        sigma = self.sigma
        self.value = pointwise(len(gamma), lambda i: (-1 - gamma[i]) if r[i] <= sigma else F_MS(gamma[i], u[i]))
    else:
        self.value = pointwise(len(gamma), lambda i: F_MS(gamma[i], u[i]))
    return self.value


@defect_of(MartynovSarkisov_calculate, 'ms-radicand')
def MartynovSarkisov_calculate_shipped(self, r, gamma):
    """What the pinned tree computes: F_MS with the radicand 1 + 2(gamma-u) replaced by (gamma-u) + 0.5 (DESIGN.md 5, #8).
    Not a contract: it only identifies the recorded finding, so that any *other* deviation from F_MS is still reported."""
    if self.potential is None:
        raise AssertionError
    if len(gamma) != len(self.potential):
        raise AssertionError
    u = self.potential
    if self.apply_hard_core:
        if self.sigma is None:
            raise AssertionError
        sigma = self.sigma
        self.value = pointwise(len(gamma), lambda i: (-1 - gamma[i]) if r[i] <= sigma else exp(sqrt(gamma[i] - u[i] + 0.5) - 1.0) - 1.0 - gamma[i])
    else:
        self.value = pointwise(len(gamma), lambda i: exp(sqrt(gamma[i] - u[i] + 0.5) - 1.0) - 1.0 - gamma[i])
    return self.value


def _calc_cases(clsref, allow_sigma_none=True):
    def gen():
        for hc in (False, True):
            for pot in ('array', 'none', 'int-array'):
                for sig in (('real', 'none') if allow_sigma_none or not hc else ('real',)):
                    if pot == 'int-array' and not (hc and sig == 'real'):
                        continue        # an integer-valued potential (a square well written with np.where): the core values -1-gamma must not be truncated
                    def build(f, hc=hc, pot=pot, sig=sig):
                        n = f.int('n', lo=0)
                        m = f.int('m', lo=0)
                        gamma = f.array('gamma', (n,))
                        r = f.array('r', (n,))          # precondition: r and gamma live on the same grid
                        u = f.array('u', (m,)) if pot == 'array' else (f.array('u', (m,), dtype='int') if pot == 'int-array' else None)
                        sigma = f.real('sigma') if sig == 'real' else None
                        old_value = f.array('old_value', (n,))   # whatever an earlier call left behind
                        # a real closure object (constructor run), then populated the way PRISM.__init__ does
                        self = f.make(clsref, kwargs=dict(apply_hard_core=hc), potential=u, value=old_value, sigma=sigma, apply_hard_core=hc)
                        return dict(self=self, r=r, gamma=gamma)
                    opts = {'post_body': _core_post} if (hc and pot == 'array' and sig == 'real') else {}
                    if pot == 'array' and sig == 'real':
                        # PRISM.__init__ assigns .sigma and .potential on closures that may have been evaluated before
                        opts['history'] = {'method': 'calculate', 'mutable': ('sigma', 'potential'), 'other': True}
                    yield 'hard_core=%s,potential=%s,sigma=%s' % (hc, pot, sig), build, opts
    return gen


cases(PercusYevick_calculate)(_calc_cases('pyPRISM.closure.PercusYevick:PercusYevick'))
cases(HyperNettedChain_calculate)(_calc_cases('pyPRISM.closure.HyperNettedChain:HyperNettedChain'))
cases(MeanSphericalApproximation_calculate)(_calc_cases('pyPRISM.closure.MeanSphericalApproximation:MeanSphericalApproximation', allow_sigma_none=False))
cases(MartynovSarkisov_calculate)(_calc_cases('pyPRISM.closure.MartynovSarkisov:MartynovSarkisov'))
