"""dev tool: run one (contract, case) in-process with a watchdog.   .venv/bin/python tools/prof_case.py <target substr> <case idx> [secs]"""
import sys, time, signal, traceback, os
sys.path.insert(0, os.path.dirname(os.path.dirname(os.path.abspath(__file__)))); sys.path.insert(0, os.environ.get('REPO', '/repo'))
import warnings; warnings.simplefilter('ignore')
from pyvc import run, verify
run.setup_paths(); run.load_contract_modules()
from pyvc import api
key=[k for k in api.CONTRACTS if sys.argv[1] in k and '#' not in k][0]
c=api.CONTRACTS[key]
idx=int(sys.argv[2])
def handler(sig, frm):
    print('TIMEOUT, stack:'); traceback.print_stack(frm, limit=30); os._exit(1)
signal.signal(signal.SIGALRM, handler); signal.alarm(int(sys.argv[3]) if len(sys.argv)>3 else 60)
t0=time.time()
out=run.run_case_task((key, idx, {'seed':0,'n_random':50}))
print(c.cases[idx][0], out['status'], out['paths'], 'paths', len(out['obligations']), 'obl', '%.1fs'%(time.time()-t0), 'solver %.1f'%out['solver_s'], 'feas', out['feas_checks'])
print(out['detail'][-2500:])
for o in out['obligations']:
    if o['status']!='proved' or o['secs']>1: print(o)
if out.get('violation'): print(out['violation']['witness'].get('diffs'))
if out.get('unconfirmed'): print([u[:3] for u in out['unconfirmed']])
