"""Contracts for pyPRISM/util/UnitConverter.py  (property C17).

pint (parser, registry, Quantity arithmetic) is trusted; its facts about the unit names the code uses are read from
the installed registry on every run (pyvc/units.py).  The specs are the textbook formulas of the property statement,
written with the exact SI constants and with the converter's characteristic length / energy *as given to its
constructor* (recorded as ghost values by the case builders from a small conversion table below -- not through the
registry, so a registry polluted by another converter cannot hide in the spec).
"""
from pyvc.api import *

UC = 'pyPRISM.util.UnitConverter:UnitConverter'

# exact SI values (2019 redefinition)
K_B = 1.380649e-23         # J/K
N_A = 6.02214076e23        # 1/mol

# textbook factors to SI for the unit strings exercised (length in m; energy in J or J/mol)
LENGTH_UNITS = {'nanometer': 1e-9, 'angstrom': 1e-10, 'micrometer': 1e-6}
ENERGY_UNITS = {'kilojoule/mole': (1e3, True), 'kcal/mol': (4184.0, True), 'joule': (1.0, False), 'eV': (1.602176634e-19, False)}


@contract('pyPRISM/util/UnitConverter.py::UnitConverter.toKelvin', props=['C17'])
def toKelvin(self, temperature):
    ec = self._ghost_ec                     # characteristic energy in J (per molecule) or J/mol (molar)
    if self._ghost_molar:
        return make_qty(self.pint, elementwise(lambda t: t * ec / (K_B * N_A), temperature), 'K')
    return make_qty(self.pint, elementwise(lambda t: t * ec / K_B, temperature), 'K')


@contract('pyPRISM/util/UnitConverter.py::UnitConverter.toCelcius', props=['C17'])
def toCelcius(self, temperature):
    ec = self._ghost_ec
    if self._ghost_molar:
        return make_qty(self.pint, elementwise(lambda t: t * ec / (K_B * N_A) - 273.15, temperature), 'degC')
    return make_qty(self.pint, elementwise(lambda t: t * ec / K_B - 273.15, temperature), 'degC')


@contract('pyPRISM/util/UnitConverter.py::UnitConverter.toInvAngstrom', props=['C17'])
def toInvAngstrom(self, wavenumber):
    dc = self._ghost_dc                     # characteristic length in m
    return make_qty(self.pint, elementwise(lambda k: k / (dc * 1e10), wavenumber), 'angstrom^-1')


@contract('pyPRISM/util/UnitConverter.py::UnitConverter.toInvNanometer', props=['C17'])
def toInvNanometer(self, wavenumber):
    dc = self._ghost_dc
    return make_qty(self.pint, elementwise(lambda k: 10 * (k / (dc * 1e10)), wavenumber), 'nanometer^-1')


@contract('pyPRISM/util/UnitConverter.py::UnitConverter.toConcentration', props=['C17'])
def toConcentration(self, density):
    dc = self._ghost_dc
    # rho* / d_c^3 sites per m^3  ->  mol per litre
    return make_qty(self.pint, elementwise(lambda rho: rho / (dc * dc * dc) / N_A / 1000.0, density), 'mol/L')


@contract('pyPRISM/util/UnitConverter.py::UnitConverter.toVolumeFraction', props=['C17'])
def toVolumeFraction(self, density, diameter):
    return make_qty(self.pint, elementwise(lambda rho: rho * PI * diameter * diameter * diameter / 6, density), 'dimensionless')


def _mk_uc(f, lu, eu, prefix=''):
    dc = f.real(prefix + 'dc', pos=True)
    ec = f.real(prefix + 'ec', pos=True)
    o = f.construct(UC, dc=dc, dc_unit=lu, mc=f.real(prefix + 'mc', pos=True), mc_unit='gram/mole', ec=ec, ec_unit=eu)
    f.setattr(o, '_ghost_dc', dc * f.const(LENGTH_UNITS[lu]))
    f.setattr(o, '_ghost_ec', ec * f.const(ENERGY_UNITS[eu][0]))
    f.setattr(o, '_ghost_molar', ENERGY_UNITS[eu][1])
    return o


def _cases_for(argnames):
    def gen():
        combos = [('nanometer', 'kilojoule/mole'), ('angstrom', 'joule'), ('micrometer', 'kcal/mol'), ('nanometer', 'eV')]
        for lu, eu in combos:
            for kind in ('scalar', 'array'):
                def build(f, lu=lu, eu=eu, kind=kind):
                    o = _mk_uc(f, lu, eu)
                    d = dict(self=o)
                    for i, a in enumerate(argnames):
                        if i == 0 and kind == 'array':
                            d[a] = f.array(a, (f.int('n', lo=0),))
                        else:
                            d[a] = f.real(a, pos=(a == 'diameter'))
                    return d
                yield 'dc in %s, ec in %s, %s argument' % (lu, eu, kind), build
        def build_two(f):
            # another converter with other characteristic units was created (and used) in the same process
            other = _mk_uc(f, 'angstrom', 'joule', prefix='other_')
            o = _mk_uc(f, 'nanometer', 'kilojoule/mole')
            f.call(other, 'toKelvin', f.real('other_T'))
            d = dict(self=o)
            for a in argnames:
                d[a] = f.real(a, pos=(a == 'diameter'))
            return d
        yield 'a second converter with different units exists and was used', build_two
        def build_two_b(f):
            o = _mk_uc(f, 'nanometer', 'kilojoule/mole')
            other = _mk_uc(f, 'angstrom', 'joule', prefix='other_')      # created *after* the one under test
            d = dict(self=o)
            for a in argnames:
                d[a] = f.real(a, pos=(a == 'diameter'))
            return d
        yield 'a second converter with different units is created afterwards', build_two_b
    return gen


cases(toKelvin)(_cases_for(['temperature']))
cases(toCelcius)(_cases_for(['temperature']))
cases(toInvAngstrom)(_cases_for(['wavenumber']))
cases(toInvNanometer)(_cases_for(['wavenumber']))
cases(toConcentration)(_cases_for(['density']))
cases(toVolumeFraction)(_cases_for(['density', 'diameter']))


# --------------------------------------------------------------------------- constructor (documented defaults included)

import pint


@contract('pyPRISM/util/UnitConverter.py::UnitConverter.__init__', props=['C17'])
def UnitConverter_init(self, dc=1.0, dc_unit='nanometer', mc=14.02, mc_unit='gram/mole', ec=2.48, ec_unit='kilojoule/mole'):
    # a private registry per converter, in which dc / mc / ec are the characteristic length, mass and energy as given
    self.pint = pint.UnitRegistry()
    self.pint.define('dchar = {} {} = dc'.format(dc, dc_unit))
    self.pint.define('mchar = {} {} = mc'.format(mc, mc_unit))
    self.pint.define('echar = {} {} = ec'.format(ec, ec_unit))
    self.dc = make_qty(self.pint, 1, 'dc')
    self.d = self.dc
    self.mc = make_qty(self.pint, 1, 'mc')
    self.m = self.mc
    self.ec = make_qty(self.pint, 1, 'ec')
    self.e = self.ec


@cases(UnitConverter_init)
def _uc_init_cases():
    yield 'all defaults', (lambda f: dict(self=f.obj(UC)))
    for lu, eu in (('nanometer', 'kilojoule/mole'), ('angstrom', 'joule'), ('micrometer', 'kcal/mol')):
        def build(f, lu=lu, eu=eu):
            return dict(self=f.obj(UC), dc=f.real('dc', pos=True), dc_unit=lu, mc=f.real('mc', pos=True), mc_unit='gram/mole',
                        ec=f.real('ec', pos=True), ec_unit=eu)
        yield 'dc in %s, ec in %s' % (lu, eu), build
