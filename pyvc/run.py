"""Check runner: obligations of one property -> verdicts, evidence file, exit code."""
import glob
import hashlib
import importlib
import json
import multiprocessing as mp
import os
import sys
import time
import traceback

VERIF = os.path.dirname(os.path.dirname(os.path.abspath(__file__)))
REPO = os.environ.get('REPO', '/repo')


def setup_paths():
    for p in (VERIF, REPO):
        if p not in sys.path:
            sys.path.insert(0, p)


def load_contract_modules():
    setup_paths()
    from . import api
    for f in sorted(glob.glob(os.path.join(VERIF, 'contracts', '*.py'))):
        name = os.path.splitext(os.path.basename(f))[0]
        if name.startswith('_'):
            continue
        importlib.import_module('contracts.' + name)
    return api.CONTRACTS, api.LEMMAS


_PROG = None
_REG = None
_FOOT = None


def footprint():
    """Attribute names known to the contracts (appearing anywhere in contracts/*.py).  An attribute of a repo object
    whose name no contract mentions is state the contracts do not constrain directly: it is not compared field by
    field; its influence on results is caught by the history cases (same object, earlier call, re-assignment)."""
    global _FOOT
    if _FOOT is None:
        import ast
        names = set()
        for f in glob.glob(os.path.join(VERIF, 'contracts', '*.py')):
            tree = ast.parse(open(f).read())
            for n in ast.walk(tree):
                if isinstance(n, ast.Attribute):
                    names.add(n.attr)
                elif isinstance(n, ast.keyword) and n.arg:
                    names.add(n.arg)
                elif isinstance(n, ast.Constant) and isinstance(n.value, str) and n.value.isidentifier():
                    names.add(n.value)
        _FOOT = names
    return _FOOT


def program():
    global _PROG, _REG
    if _PROG is None:
        from .interp import Program
        from .verify import build_registry
        from . import api
        _PROG = Program(REPO)
        _PROG.extra_roots['contracts'] = os.path.join(VERIF, 'contracts')
        _REG = build_registry(_PROG, api.CONTRACTS)
    return _PROG, _REG


def source_info(target):
    """sha256 and line span of the verified function's source text in the current working tree."""
    import ast
    path, qual = target.split('::')
    full = os.path.join(REPO, path)
    src = open(full).read()
    tree = ast.parse(src)
    parts = qual.split('.')
    node = None
    body = tree.body
    for i, p in enumerate(parts):
        if p in ('setter', 'getter') and i == 2:
            break
        found = None
        for n in body:
            if isinstance(n, (ast.ClassDef, ast.FunctionDef)) and n.name == p:
                if isinstance(n, ast.FunctionDef) and len(parts) == 3:
                    is_setter = any(isinstance(d, ast.Attribute) and d.attr == 'setter' for d in n.decorator_list)
                    if (parts[2] == 'setter') != is_setter:
                        continue
                found = n     # last definition wins (as in Python)
        if found is None:
            return {'path': path, 'qualname': qual, 'missing': True}
        node = found
        body = getattr(found, 'body', [])
    seg = ast.get_source_segment(src, node) or ''
    return {'path': path, 'qualname': qual, 'lines': [node.lineno, node.end_lineno],
            'sha256': hashlib.sha256(seg.encode()).hexdigest()}


def run_case_task(task):
    """Worker: explore all paths of one (contract, case); discharge; search for witnesses."""
    target, case_idx, opts = task
    t0 = time.time()
    out = {'target': target, 'case': None, 'obligations': [], 'paths': 0, 'status': 'ok', 'detail': '',
           'violation': None, 'used_specs': [], 'inlined': [], 'feas_checks': 0, 'solver_s': 0.0}
    try:
        from . import api, verify, replay
        from .state import Shared
        from .sym import Unsupported, Infeasible
        import z3
        prog, reg = program()
        c = api.CONTRACTS[target]
        name, build, copts = c.cases[case_idx]
        out['case'] = name
        shared = Shared()
        per_name = {}        # obligation name -> [status, backend, secs, n_vcs]
        unsupported = None
        failing = []         # (name, status, model_vals, solver text)
        only = opts.get('only')          # goal-name patterns of the property being checked (None = all)
        import fnmatch as _fn
        used, inl = set(), set()
        fnames = {}
        early = None         # witness found as soon as the first obligation failed
        early_tried = 0
        ign = tuple(x.split('.')[-1] for x in copts.get('ignore', ())) + tuple(copts.get('ignore', ()))
        while shared.worklist and early is None:
            prefix = shared.worklist.pop()
            try:
                res = verify.run_path(prog, reg, c, None, build, prefix, shared, modular=not copts.get('inline', False), opts=copts)
            except Infeasible:
                continue
            except Unsupported as e:
                unsupported = str(e)
                break
            # vacuity canary: the assumptions of this path must be satisfiable (checked per independent component,
            # cached: the builder's part is the same on every path).  An unsatisfiable path is infeasible, not a
            # proof; a case with no feasible path at all is reported as vacuous below.
            if not _assumptions_sat(res.assumptions):
                out['infeasible_paths'] = out.get('infeasible_paths', 0) + 1
                continue
            out['paths'] += 1
            used |= res.used_specs
            inl |= res.inlined
            # try all goals at once first
            goals = [it for it in res.goals if only is None or any(_fn.fnmatchcase(it[0], p) for p in only)]
            pending = []
            seen_goals = {}
            for it in goals:
                n, g = it[0], it[1]
                own_asm = it[2] if len(it) > 2 else None
                gk = g.get_id() if hasattr(g, 'get_id') else repr(g)
                if gk in seen_goals and own_asm is None:
                    st, model, dt, be = seen_goals[gk]      # same formula under the same assumptions (aliased entries)
                    dt = 0.0
                else:
                    st, model, dt, be = verify.smt_check(own_asm if own_asm is not None else res.assumptions, g)
                    if own_asm is None:
                        seen_goals[gk] = (st, model, dt, be)
                out['solver_s'] += dt
                rec = per_name.setdefault(n, ['proved', set(), 0.0, 0])
                rec[1].add(be)
                rec[2] += dt
                rec[3] += 1
                if st != 'proved':
                    if rec[0] == 'proved' or (rec[0] == 'unknown' and st == 'refuted'):
                        rec[0] = st
                    mv = None
                    if model is not None:
                        from .factory import SymFactory
                        mv = verify.model_values(model, _factory_names(c, build, prog, reg))
                    failing.append((n, st, mv, str(g)[:2000] if g is not False else 'False (structural mismatch)', res.desc))
                    full_name = '%s/%s/%s/%s' % (opts.get('prop', ''), target.split('::')[1].split('#')[0], name, n)
                    is_known = any(_fn.fnmatchcase(full_name, pat) for pat in opts.get('known', ()))
                    if early_tried < 2 and not is_known:
                        # replay at once: a failing input on the real code settles this case (no need to spend
                        # the solver budget on the remaining obligations of a function that is already refuted)
                        early_tried += 1
                        w, tried = replay.search(c, build, mv, n_random=40, seed=int(opts.get('seed', 0)), ignore=ign,
                                                 only=only, post_body=copts.get('post_body'))
                        out['replay_tried'] = out.get('replay_tried', 0) + tried
                        if w is not None:
                            early = w
                            break
        out['feas_checks'] = shared.feas_checks
        out['used_specs'] = sorted(used)
        out['inlined'] = sorted(inl)
        if unsupported is not None:
            out['status'] = 'unsupported'
            out['detail'] = unsupported
        if out['paths'] == 0 and out['status'] == 'ok':
            out['status'] = 'vacuous'
            out['detail'] = 'no feasible path'
        # anything not proved (or out of subset): directed search on the real code
        ncross = int(opts.get('crosscheck', 0))
        if early is None and not failing and unsupported is None and out['status'] == 'ok' and ncross > 0:
            # CPython cross-check of the symbolic semantics (DESIGN 2.6): every obligation of this case was proved, so
            # the real function and the contract must also agree natively on random pre-states of the same family.
            # A disagreement here means the engine's model of Python/numpy is wrong (or the proof relied on fp = reals
            # where rounding matters): it is reported with its input like any other violation.
            w, tried = replay.search(c, build, None, n_random=ncross, seed=int(opts.get('seed', 0)) + 7919, ignore=ign,
                                     only=only, post_body=copts.get('post_body'))
            out['crosscheck_trials'] = tried
            if w is not None:
                early = w
                failing = [('native cross-check (all symbolic obligations proved)', 'refuted', None, 'the real function and the contract disagree on a concrete input', '')]
        if early is not None:
            out['violation'] = {'witness': early, 'failing': [(f[0], f[1], f[3], f[4]) for f in failing[:8]]}
            out['detail'] = 'stopped at the first obligation refuted on the real code'
        elif failing or unsupported is not None:
            mv = None
            for f in failing:
                if f[2]:
                    mv = f[2]
                    break
            n_random = int(opts.get('n_random', 300))
            w, tried = replay.search(c, build, mv, n_random=n_random, seed=int(opts.get('seed', 0)), ignore=ign,
                                     only=only, post_body=copts.get('post_body'), budget_s=float(opts.get('replay_budget_s', 30)))
            out['replay_tried'] = out.get('replay_tried', 0) + tried
            if w is not None:
                out['violation'] = {'witness': w, 'failing': [(f[0], f[1], f[3], f[4]) for f in failing[:8]]}
            else:
                out['unconfirmed'] = [(f[0], f[1], f[3], f[4]) for f in failing[:8]]
        for n, rec in per_name.items():
            out['obligations'].append({'name': n, 'status': rec[0], 'backend': '+'.join(sorted(rec[1])),
                                       'secs': round(rec[2], 4), 'vcs': rec[3]})
    except Exception:
        out['status'] = 'crash'
        out['detail'] = traceback.format_exc()
    out['wall_s'] = round(time.time() - t0, 3)
    return out


_FN_CACHE = {}
_SAT_CACHE = {}


def _assumptions_sat(assumptions):
    """Satisfiability of a conjunction, decided per symbol-connected component (exact), with a cache."""
    import z3
    from .state import _symbols, _abstract
    assumptions = [_abstract(a) for a in assumptions]
    items = [(a, _symbols(a)) for a in assumptions if not isinstance(a, bool)]
    if any(a is False for a in assumptions):
        return False
    comp = list(range(len(items)))

    def find(i):
        while comp[i] != i:
            comp[i] = comp[comp[i]]
            i = comp[i]
        return i
    owner = {}
    for i, (a, sy) in enumerate(items):
        for x in sy:
            if x in owner:
                comp[find(i)] = find(owner[x])
            else:
                owner[x] = i
    groups = {}
    for i in range(len(items)):
        groups.setdefault(find(i), []).append(items[i][0])
    for g in groups.values():
        key = tuple(sorted(a.get_id() for a in g))
        r = _SAT_CACHE.get(key)
        if r is None:
            s = z3.Solver()
            s.set('timeout', 5000)
            s.set('rlimit', 20000000)        # deterministic resource cap (the time-out is not honoured inside nlsat preprocessing)
            for a in g:
                s.add(a)
            from .sym import forked_check
            r = forked_check(s, 6.0) != 'unsat'
            _SAT_CACHE[key] = r
            _SAT_CACHE[('keep', key)] = g
        if not r:
            return False
    return True


def _factory_names(c, build, prog, reg):
    key = (c.target, id(build))
    if key not in _FN_CACHE:
        from .state import State, Shared
        from .factory import SymFactory
        from . import interp as I
        st = State(Shared(), [])
        ip = I.Interp(prog, st, reg)
        f = SymFactory(st, ip)
        try:
            build(f)
        except Exception:
            pass
        _FN_CACHE[key] = dict(f.names)
    return _FN_CACHE[key]


def concrete_sweep_task(task):
    """Worker: run-time differential check of one (contract, case) on random pre-states (bounded stand-in)."""
    target, case_idx, n, seed = task
    from . import api, replay
    c = api.CONTRACTS[target]
    name, build, copts = c.cases[case_idx]
    try:
        w, tried = replay.search(c, build, None, n_random=n, seed=seed)
    except Exception:
        return {'target': target, 'case': name, 'tried': 0, 'witness': None, 'crash': traceback.format_exc()}
    return {'target': target, 'case': name, 'tried': tried, 'witness': w}
