"""Per-property metadata used in evidence files (level, explanation, assumptions)."""

A_FP = 'A1: Python/numpy floats are treated as mathematical reals (rounding, overflow, nan invisible to the proofs)'
A_ASSERT = 'A3: assert statements execute (interpreter not run with -O)'
A_NUMPY = 'A4: numpy axiomatisation of elementwise ops, broadcasting, views vs copies, masked stores (cross-checked by the concrete differential replay)'
A_TYPES = 'A7: type lists hold pairwise distinct hashable labels and are not mutated after a table is built'

PROPS = {
    'C09': {
        'level': 'proof',
        'explanation': 'Each closure calculate() body is symbolically executed from the current source and shown equal, for every gamma/u/r/sigma and every array length, to the pointwise spec F(gamma_i,u_i) / -1-gamma_i taken from the property statement (return value, stored value, frame, raised exceptions); Taylor and alias clauses are lemmas over those specs.',
        'assumptions': [A_FP, A_ASSERT, A_NUMPY, 'exp/sqrt uninterpreted with exp>0, sqrt(x)^2=x (x>=0)', 'r and gamma have the same length (call sites pass the domain grid)'],
    },
    'C03': {
        'level': 'proof',
        'explanation': 'Closure and hard-core potential bodies are verified against pointwise specs; the core clauses (c+gamma=-1 for r<=sigma; u=high_value for r<=sigma; exp underflow route) are lemmas over those specs, and g=residual/r inside the core is a lemma over the contract of PRISM.cost.',
        'assumptions': [A_FP, A_ASSERT, A_NUMPY, 'IEEE underflow axiom: x <= -745.2 => exp(x) == 0 (only for the PY/HNC-without-flag clause)'],
    },
}
