"""Spec-level lemmas: statements about the contracts' spec functions and postconditions only (no repo text is read
here unless a lemma says so).  Each lemma turns the code-facing contracts of a property into the wording of the
property statement.  Discharged by z3 (abstract ring with quantified axioms, nonlinear reals) or sympy (series).
"""
import z3
from pyvc.api import lemma
from contracts.closure import F_PY, F_HNC, F_MSA, F_MS

R = z3.RealSort()


# --------------------------------------------------------------------------- an abstract (non-commutative) ring of n x n matrices

class Ring(object):
    """Uninterpreted sort with ring axioms; inverses are specified only where a lemma assumes invertibility."""

    def __init__(self, transpose=False):
        self.M = z3.DeclareSort('Mat')
        M = self.M
        self.mul = z3.Function('mul', M, M, M)
        self.add = z3.Function('add', M, M, M)
        self.neg = z3.Function('neg', M, M)
        self.one = z3.Const('one', M)
        self.zero = z3.Const('zero', M)
        x, y, w = z3.Consts('x y w', M)
        mul, add, neg, one, zero = self.mul, self.add, self.neg, self.one, self.zero
        self.axioms = [
            z3.ForAll([x, y, w], mul(mul(x, y), w) == mul(x, mul(y, w))),
            z3.ForAll([x, y, w], add(add(x, y), w) == add(x, add(y, w))),
            z3.ForAll([x, y], add(x, y) == add(y, x)),
            z3.ForAll([x], add(x, zero) == x),
            z3.ForAll([x], add(x, neg(x)) == zero),
            z3.ForAll([x], mul(x, one) == x),
            z3.ForAll([x], mul(one, x) == x),
            z3.ForAll([x, y, w], mul(x, add(y, w)) == add(mul(x, y), mul(x, w))),
            z3.ForAll([x, y, w], mul(add(x, y), w) == add(mul(x, w), mul(y, w))),
            z3.ForAll([x, y], mul(x, neg(y)) == neg(mul(x, y))),
            z3.ForAll([x, y], mul(neg(x), y) == neg(mul(x, y))),
            z3.ForAll([x], neg(neg(x)) == x),
            z3.ForAll([x, y], neg(add(x, y)) == add(neg(x), neg(y))),
        ]
        if transpose:
            self.T = z3.Function('T', M, M)
            T = self.T
            self.axioms += [z3.ForAll([x, y], T(mul(x, y)) == mul(T(y), T(x))),
                            z3.ForAll([x, y], T(add(x, y)) == add(T(x), T(y))),
                            z3.ForAll([x], T(neg(x)) == neg(T(x))),
                            z3.ForAll([x], T(T(x)) == x), T(one) == one]

    def sub(self, a, b):
        return self.add(a, self.neg(b))

    def consts(self, names):
        return z3.Consts(names, self.M)

    def inverse_of(self, inv, a):
        return [self.mul(inv, a) == self.one, self.mul(a, inv) == self.one]


# --------------------------------------------------------------------------- C01 / C05: PRISM equation

def _np_model(n, seed, cond_max=50.0):
    """Random well-conditioned real matrices (a genuine model of the ring axioms) for refuting false variants."""
    import numpy as np
    rng = np.random.RandomState(seed)
    while True:
        A = 0.3 * rng.randn(n, n)
        if np.linalg.cond(np.eye(n) - A) < cond_max:
            return rng, A


@lemma('prism-fixed-point', props=['C01', 'C02', 'C04'])
def l_prism(L):
    """cost's postcondition stores  rho_pair o H = (I - Omega C)^-1 (Omega C) Omega  (contract of PRISM.cost).  With
    A = Omega C, B = Omega this is the matrix PRISM equation  H = Omega C (Omega + H)  at every wavenumber, any rank."""
    rg = Ring()
    A, B, H, J = rg.consts('A B H J')
    IA = rg.sub(rg.one, A)
    asm = rg.axioms + rg.inverse_of(J, IA) + [H == rg.mul(rg.mul(J, A), B)]
    s1 = rg.mul(IA, H) == rg.mul(A, B)
    s2 = rg.mul(IA, H) == rg.sub(H, rg.mul(A, H))
    s3 = H == rg.add(rg.mul(A, B), rg.mul(A, H))
    L.prove('step 1: (1-A) H == A B', s1, asm)
    L.prove('step 2: (1-A) H == H - A H', s2, rg.axioms)
    L.prove('step 3: H == A B + A H', s3, rg.axioms + [s1, s2])
    L.prove('H == (1-A)^-1 A B  ==>  H == A (B + H)   [the PRISM equation]', H == rg.mul(A, rg.add(B, H)), rg.axioms + [s3])
    # canaries: false variants are refuted in a genuine model (random real matrices)
    import numpy as np
    for n in (2, 3):
        rng, a = _np_model(n, 7 + n)
        b = rng.randn(n, n)
        h = np.linalg.inv(np.eye(n) - a) @ a @ b
        L.check('numeric model n=%d satisfies the PRISM equation' % n, np.allclose(h, a @ (b + h), rtol=1e-9, atol=1e-11), backend='numeric')
        L.check('canary n=%d: H == A (B - H) fails in the model' % n, not np.allclose(h, a @ (b - h), rtol=1e-6), backend='numeric')
        L.check('canary n=%d: H == (B + H) A fails in the model' % n, not np.allclose(h, (b + h) @ a, rtol=1e-6), backend='numeric')


@lemma('closure-discrepancy-is-residual-times-slope', props=['C01'])
def l_closure_residual(L):
    """From cost's contract: c = F(G) at every grid point of every pair (closure contract), and
    y = r (gamma_out - G) with gamma_out = h - c (linearity and round trip of the transforms, C07).  Hence the closure
    discrepancy of the stored functions is  c - F(h - c) = F(G) - F(G + y/r): a difference quotient of the closure
    times the residual, no absolute tolerance."""
    F = z3.Function('F_closure', R, R)
    c, h, G, y, r = z3.Reals('c h G y r')
    asm = [r > 0, c == F(G), y == r * ((h - c) - G)]
    L.prove('c - F(h-c) == F(G) - F(G + y/r)', c - F(h - c) == F(G) - F(G + y / r), asm)
    L.prove('y == 0 ==> c == F(h - c)', z3.Implies(y == 0, c == F(h - c)), asm)


@lemma('structure-factor-identity', props=['C05'])
def l_sk(L):
    """On self-consistent objects the unnormalised S = Omega + rho_pair o H equals (I - Omega C)^-1 Omega."""
    rg = Ring()
    A, W, H, J, S = rg.consts('A W H J S')
    IA = rg.sub(rg.one, A)
    asm = rg.axioms + rg.inverse_of(J, IA) + [H == rg.mul(rg.mul(J, A), W), S == rg.add(W, H)]
    k1 = rg.mul(IA, S) == rg.add(rg.mul(IA, W), rg.mul(A, W))
    k2 = rg.add(rg.mul(IA, W), rg.mul(A, W)) == W
    k3 = rg.mul(J, rg.mul(IA, S)) == S
    L.prove('step 1: (1-A) S == (1-A) Omega + A Omega', k1, asm)
    L.prove('step 2: (1-A) Omega + A Omega == Omega', k2, rg.axioms)
    L.prove('step 3: (1-A)^-1 ((1-A) S) == S', k3, asm)
    L.prove('S == Omega + (1-A)^-1 A Omega  ==>  S == (1-A)^-1 Omega', S == rg.mul(J, W), rg.axioms + [k1, k2, k3])
    import numpy as np
    rng, a = _np_model(3, 11)
    w = rng.randn(3, 3)
    j = np.linalg.inv(np.eye(3) - a)
    sk = w + j @ a @ w
    L.check('numeric model satisfies the identity', np.allclose(sk, j @ w), backend='numeric')
    L.check('canary: S == Omega (1-A)^-1 fails in the model', not np.allclose(sk, w @ j, rtol=1e-6), backend='numeric')


@lemma('solved-arrays-are-symmetric', props=['C05'])
def l_sym(L):
    """With symmetric Omega and C:  ((1 - Omega C)^-1 Omega C Omega)^T equals itself (so h and S are symmetric),
    and (C S C)^T = C S C for symmetric S (solvation potential)."""
    rg = Ring(transpose=True)
    W, C, J, K, H, S = rg.consts('W C J K H S')
    T = rg.T
    WC = rg.mul(W, C)
    CW = rg.mul(C, W)
    WCW = rg.mul(WC, W)
    base = rg.axioms + [T(W) == W, T(C) == C] + rg.inverse_of(J, rg.sub(rg.one, WC)) + rg.inverse_of(K, rg.sub(rg.one, CW)) + \
        [H == rg.mul(rg.mul(J, WC), W)]
    t1 = T(rg.sub(rg.one, WC)) == rg.sub(rg.one, CW)
    t2 = T(J) == K
    h1 = rg.mul(rg.sub(rg.one, WC), WCW) == rg.mul(WCW, rg.sub(rg.one, CW))
    h2 = rg.mul(J, rg.mul(rg.mul(rg.sub(rg.one, WC), WCW), K)) == rg.mul(WCW, K)
    h3 = rg.mul(J, rg.mul(rg.mul(WCW, rg.sub(rg.one, CW)), K)) == rg.mul(J, WCW)
    h4 = rg.mul(J, WCW) == rg.mul(WCW, K)
    h5 = T(H) == rg.mul(WCW, K)
    h6 = H == rg.mul(J, WCW)
    L.prove('(1 - Omega C)^T == 1 - C Omega', t1, base)
    L.prove('transpose of (1 - Omega C)^-1 is (1 - C Omega)^-1', t2, base + [t1])
    L.prove('(1 - WC) WCW == WCW (1 - CW)', h1, rg.axioms)
    L.prove('J ((1 - WC) WCW) K == WCW K', h2, base)
    L.prove('J (WCW (1 - CW)) K == J WCW', h3, base)
    L.prove('J WCW == WCW K', h4, rg.axioms + [h1, h2, h3])
    L.prove('H^T == WCW K', h5, base + [t2])
    L.prove('H == J WCW', h6, base)
    L.prove('H^T == H', T(H) == H, [h4, h5, h6])
    L.prove('(C S C)^T == C S C for symmetric S', T(rg.mul(rg.mul(C, S), C)) == rg.mul(rg.mul(C, S), C), rg.axioms + [T(C) == C, T(S) == S])
    import numpy as np
    rng = np.random.RandomState(5)
    w = rng.randn(3, 3); w = 0.2 * (w + w.T)
    c = rng.randn(3, 3); c = 0.2 * (c + c.T)
    h = np.linalg.inv(np.eye(3) - w @ c) @ w @ c @ w
    L.check('numeric model: H is symmetric', np.allclose(h, h.T), backend='numeric')
    c2 = rng.randn(3, 3)
    h2n = np.linalg.inv(np.eye(3) - w @ c2) @ w @ c2 @ w
    L.check('canary: with a non-symmetric C the product is not symmetric', not np.allclose(h2n, h2n.T, rtol=1e-6), backend='numeric')


# --------------------------------------------------------------------------- C03

@lemma('core-g-equals-residual-over-r', props=['C03'])
def l_core(L):
    """At a grid point with r_i <= sigma of a hard-core pair the closure output obeys c_i + G_i == -1 (closure
    contract, core clause).  With cost's contract (y = r (gamma_out - G), gamma_out = h - c):  g_i = h_i + 1 = y_i / r_i,
    whatever the other pairs, densities and omega are (they only enter through gamma_out)."""
    c, h, G, y, r = z3.Reals('c h G y r')
    asm = [r > 0, c + G == -1, y == r * ((h - c) - G)]
    L.prove('g_i == y_i / r_i inside the core', h + 1 == y / r, asm)
    L.prove('|g_i| == |y_i| / r_i', z3.If(h + 1 >= 0, h + 1, -(h + 1)) == z3.If(y >= 0, y, -y) / r, asm)
    L.expect_unprovable('canary: without the core clause nothing forces g_i == y_i/r_i', h + 1 == y / r, asm[:1] + asm[2:])


@lemma('unflagged-PY-HNC-on-a-hard-core', props=['C03'])
def l_underflow(L):
    """PY / HNC without the flag, on a potential whose core value underflows exp (libm: exp(x) == 0 for x <= -745.2):
    the spec functions of C09 give c + gamma == -1 exactly.  (exp is uninterpreted here and NOT assumed positive.)"""
    g, u = z3.Reals('gamma u')
    ex = z3.Function('exp', R, R)
    L.prove('PY: u >= 745.2 ==> F_PY(gamma,u) + gamma == -1', z3.Implies(u >= z3.RealVal('745.2'), F_PY(g, u) + g == -1),
            [z3.Implies(-u <= z3.RealVal('-745.2'), ex(-u) == 0)])
    L.prove('HNC: u - gamma >= 745.2 ==> F_HNC(gamma,u) + gamma == -1', z3.Implies(u - g >= z3.RealVal('745.2'), F_HNC(g, u) + g == -1),
            [z3.Implies(g - u <= z3.RealVal('-745.2'), ex(g - u) == 0)])
    L.expect_unprovable('canary: MSA has no such clause', z3.Implies(u >= z3.RealVal('745.2'), F_MSA(g, u) + g == -1), [])


# --------------------------------------------------------------------------- C07 / C08

def _wf(N, dr, dk, pi):
    return [N >= 1, dr > 0, dk > 0, dr * dk * z3.ToReal(N) == pi, pi > 3, pi < 4]


@lemma('transform-round-trip', props=['C07', 'C06'])
def l_roundtrip(L):
    """Contracts of to_fourier / to_real (C07):  F_j = dst2(2 pi r dr f)_j / k_j,   f_i = dst3(k dk/(4 pi^2) F)_i / r_i.
    Assumed on scipy: dst3(dst2(x)) = 2N x = dst2(dst3(x)) and homogeneity dst(c x) = c dst(x).  Under wf(D)
    (dr dk N = pi, r_i = (i+1) dr, k_j = (j+1) dk) both compositions are the identity."""
    N = z3.Int('N')
    i = z3.Int('i')
    dr, dk, pi, f, x2 = z3.Reals('dr dk pi f_i dst3dst2_i')
    ri = z3.ToReal(i + 1) * dr
    ki = z3.ToReal(i + 1) * dk
    wf = _wf(N, dr, dk, pi) + [i >= 0, i < N]
    # x_n = 2 pi r_n dr f_n ; Y = dst2(x); z_j = (k_j dk/(4 pi^2)) * (Y_j / k_j) = (dk/(4 pi^2)) Y_j ; dst3(z) = (dk/(4 pi^2)) * 2N x
    L.prove('the Fourier-space weights cancel: (k_j dk/(4 pi^2)) * (Y_j/k_j) == (dk/(4 pi^2)) Y_j',
            (ki * dk / (4 * pi * pi)) * (f / ki) == (dk / (4 * pi * pi)) * f, wf)
    back = ((dk / (4 * pi * pi)) * (2 * z3.ToReal(N) * (2 * pi * ri * dr * f))) / ri
    L.prove('to_real(to_fourier(f))_i == f_i', back == f, wf)
    fwd = ((2 * pi * dr) * (2 * z3.ToReal(N) * ((ki * dk / (4 * pi * pi)) * f))) / ki
    L.prove('to_fourier(to_real(F))_j == F_j', fwd == f, wf)
    # needs the invariant: with a stale dk (dr dk N != pi) the round trip is off by exactly dr dk N / pi
    L.expect_unprovable('canary: without dr*dk*N == pi the round trip is not the identity', back == f,
                        [c for k, c in enumerate(wf) if k != 3])
    a, b, u, v = z3.Reals('a b u_i v_i')
    L.prove('linearity of the weights: w_i (a u_i + b v_i) == a (w_i u_i) + b (w_i v_i)',
            (2 * pi * ri * dr) * (a * u + b * v) == a * ((2 * pi * ri * dr) * u) + b * ((2 * pi * ri * dr) * v), wf)


@lemma('transforms-are-riemann-sums-of-the-3D-radial-transform', props=['C08'])
def l_riemann(L):
    """Substituting the definition of DST-II,  y_j = 2 sum_n x_n sin(pi (j+1)(2n+1)/(2N)),  into the contract of
    to_fourier:   F_j = (4 pi / k_j) sum_n r_n f_n sin(k_j (r_n - dr/2)) dr  -- the (midpoint-shifted) Riemann sum of
    4 pi Int r f(r) sin(k r)/k dr.  With DST-III,  y_i = (-1)^i x_{N-1} + 2 sum_{n<N-1} x_n sin(pi (n+1)(2i+1)/(2N)):
    f_i = 1/(2 pi^2 r_i) [ sum_n k_n F_n sin(k_n (r_i - dr/2)) dk + boundary term ].  The obligations pin the
    individual prefactors 4 pi and 1/(2 pi^2) and the phase; a compensating pair of changes fails both."""
    N, n, j = z3.Ints('N n j')
    dr, dk, pi = z3.Reals('dr dk pi')
    wf = _wf(N, dr, dk, pi) + [n >= 0, n < N, j >= 0, j < N]
    rn = z3.ToReal(n + 1) * dr
    kj = z3.ToReal(j + 1) * dk
    L.prove('DST-II phase: pi (j+1)(2n+1)/(2N) == k_j (r_n - dr/2)',
            pi * z3.ToReal(j + 1) * z3.ToReal(2 * n + 1) / (2 * z3.ToReal(N)) == kj * (rn - dr / 2), wf)
    L.prove('forward prefactor: (1/k_j) * 2 * (2 pi r_n dr) == (4 pi / k_j) r_n dr',
            (1 / kj) * 2 * (2 * pi * rn * dr) == (4 * pi / kj) * rn * dr, wf)
    ri = z3.ToReal(j + 1) * dr
    kn = z3.ToReal(n + 1) * dk
    L.prove('DST-III phase: pi (n+1)(2i+1)/(2N) == k_n (r_i - dr/2)',
            pi * z3.ToReal(n + 1) * z3.ToReal(2 * j + 1) / (2 * z3.ToReal(N)) == kn * (ri - dr / 2), wf)
    L.prove('backward prefactor: (1/r_i) * 2 * (k_n dk/(4 pi^2)) == (1/(2 pi^2 r_i)) k_n dk',
            (1 / ri) * 2 * (kn * dk / (4 * pi * pi)) == (1 / (2 * pi * pi * ri)) * kn * dk, wf)
    L.expect_unprovable('canary: a forward prefactor 2 pi would not be the 3-D transform',
                        (1 / kj) * 2 * (2 * pi * rn * dr) == (2 * pi / kj) * rn * dr, wf)
    # k -> 0: sin(k x)/k -> x, so F_j -> 4 pi sum_n r_n (r_n - dr/2) f_n dr = volume integral + O(dr)
    x, k = z3.Reals('x k')
    s = z3.Function('sin', R, R)
    L.check('k->0 limit of sin(k x)/k is x (sympy)', _sympy_limit_sinc(), backend='sympy')


def _sympy_limit_sinc():
    import sympy
    k, x = sympy.symbols('k x', real=True)
    return sympy.limit(sympy.sin(k * x) / k, k, 0) == x


# --------------------------------------------------------------------------- C09

@lemma('closures-reduce-to-minus-u-at-weak-coupling', props=['C09'])
def l_taylor(L):
    """Every closure relation of the property statement satisfies F(0,0) = 0, dF/du(0,0) = -1, dF/dgamma(0,0) = 0
    (c = -u + second order).  Decided by sympy on the spec functions; the code-facing obligations tie the code to them."""
    import sympy
    g, u = sympy.symbols('gamma u', real=True)
    specs = {'PY': (sympy.exp(-u) - 1) * (1 + g), 'HNC': sympy.exp(g - u) - 1 - g, 'MSA': -u,
             'MS': sympy.exp(sympy.sqrt(1 + 2 * (g - u)) - 1) - 1 - g}
    for nm, F in specs.items():
        at0 = {g: 0, u: 0}
        L.check('%s: F(0,0) == 0' % nm, sympy.simplify(F.subs(at0)) == 0, backend='sympy')
        L.check('%s: dF/du(0,0) == -1' % nm, sympy.simplify(sympy.diff(F, u).subs(at0)) == -1, backend='sympy')
        L.check('%s: dF/dgamma(0,0) == 0' % nm, sympy.simplify(sympy.diff(F, g).subs(at0)) == 0, backend='sympy')
    # the sympy expressions above are the contract's spec functions: same values at rational sample points
    import fractions
    import math
    pts = [(0.0, 0.0), (0.3, -0.2), (0.7, 1.1), (2.0, 0.5)]
    for nm, Fn in (('PY', F_PY), ('HNC', F_HNC), ('MSA', F_MSA), ('MS', F_MS)):
        ok = all(abs(complex(specs[nm].subs({g: a, u: b}).evalf()).real - Fn(a, b)) < 1e-12 for a, b in pts)
        L.check('%s: sympy expression is the contract spec function (4 sample points)' % nm, ok, backend='numeric')


@lemma('closure-aliases', props=['C09'])
def l_alias(L):
    """PY, HNC, MSA, MS are subclasses with an empty body (docstring / pass) of the aliased class: identical behaviour."""
    import ast
    import os
    for alias, base, path in (('PY', 'PercusYevick', 'pyPRISM/closure/PercusYevick.py'),
                              ('HNC', 'HyperNettedChain', 'pyPRISM/closure/HyperNettedChain.py'),
                              ('MSA', 'MeanSphericalApproximation', 'pyPRISM/closure/MeanSphericalApproximation.py'),
                              ('MS', 'MartynovSarkisov', 'pyPRISM/closure/MartynovSarkisov.py')):
        tree = ast.parse(open(os.path.join(L.repo, path)).read())
        cls = [n for n in tree.body if isinstance(n, ast.ClassDef) and n.name == alias]
        ok = len(cls) == 1 and len(cls[0].bases) == 1 and isinstance(cls[0].bases[0], ast.Name) and cls[0].bases[0].id == base and \
            all(isinstance(b, ast.Pass) or (isinstance(b, ast.Expr) and isinstance(b.value, ast.Constant)) for b in cls[0].body) and \
            not cls[0].decorator_list and not cls[0].keywords
        L.check('%s is an empty subclass of %s' % (alias, base), ok, backend='syntactic')
        init = open(os.path.join(L.repo, 'pyPRISM/closure/__init__.py')).read()
        L.check('%s exported from pyPRISM.closure' % alias, ('import %s' % alias) in init or (', %s' % alias) in init or ('%s,' % alias) in init, backend='syntactic')


# --------------------------------------------------------------------------- C10: the contact clause

@lemma('contact-point-is-inside-the-core', props=['C10'])
def l_contact(L):
    """C10: a grid point that coincides with sigma to the tolerance System.check uses (tol, read from its source) is
    contact, i.e. inside the core, for every pair alike.  With the verified specs of the hard-core potentials
    (u_i == high_value iff r_i <= sigma) this requires  |r_i - sigma| < tol ==> r_i <= sigma,  which is false."""
    import ast
    import os
    import z3
    src = open(os.path.join(L.repo, 'pyPRISM/core/System.py')).read()
    tol = None
    tols = []
    for n in ast.walk(ast.parse(src)):
        if isinstance(n, ast.ClassDef) and n.name == 'System':
            for a in ast.walk(n):       # `tol = <literal>` in check() or in a helper of it, or a helper's default `tol=<literal>`
                if isinstance(a, ast.Assign) and isinstance(a.targets[0], ast.Name) and a.targets[0].id == 'tol' and isinstance(a.value, ast.Constant):
                    tols.append(a.value.value)
                if isinstance(a, ast.FunctionDef):
                    pos = a.args.args
                    for arg, d in list(zip(pos[len(pos) - len(a.args.defaults):], a.args.defaults)) + \
                            [(x, y) for x, y in zip(a.args.kwonlyargs, a.args.kw_defaults) if y is not None]:
                        if arg.arg == 'tol' and isinstance(d, ast.Constant):
                            tols.append(d.value)
    tols = [t for t in tols if isinstance(t, (int, float)) and t > 0]
    tol = max(tols) if tols else None
    L.check('System.check defines the on-grid tolerance as a literal', tol is not None, backend='syntactic')
    if tol is None:
        return
    r, s, high = z3.Reals('r_i sigma high_value')
    u = z3.If(r > s, z3.RealVal(0), high)              # spec of HardSphere.calculate (contracts/potential.py), pointwise
    ok = L.prove('|r_i - sigma| < tol ==> u_i == high_value  (hard-core potentials treat an on-grid sigma as contact)',
                 z3.Implies(z3.And(r - s < z3.RealVal(repr(tol)), s - r < z3.RealVal(repr(tol))), u == high), [high > 0])
    if not ok:
        # replay on the real code: the domain grid of dr = 0.1 holds 1.2000000000000002 where sigma = 1.2 is meant
        import numpy as np
        import pyPRISM
        d = pyPRISM.Domain(dr=0.1, length=64)
        wit = []
        for sig in (1.0, 1.2, 1.5, 0.7, 2.0):
            hs = pyPRISM.potential.HardSphere(sigma=sig)
            uu = hs.calculate(d.r)
            i = int(np.argmin(np.abs(d.r - sig)))
            wit.append({'sigma': sig, 'grid point': float(d.r[i]), 'on grid by System.check': bool(abs(d.r[i] - sig) < tol),
                        'treated as': 'core' if uu[i] == hs.high_value else 'outside'})
        L.obligations[-1]['witness'] = {'replayed on HardSphere with Domain(dr=0.1)': wit, 'solver model': L.obligations[-1].get('witness')}
        L.obligations[-1]['detail'] = 'pairs whose sigma is on the grid are treated differently: ' + ', '.join(
            'sigma=%s -> %s' % (w['sigma'], w['treated as']) for w in wit)


# --------------------------------------------------------------------------- C04: invariance under reformulations

@lemma('type-permutation-equivariance', props=['C04'])
def l_perm(L):
    """Re-ordering the type list conjugates every per-wavenumber matrix with one permutation matrix Q (Q Q^T = 1); the
    element-wise (Hadamard) density scalings and the type-keyed reads/writes commute with it (C13: access is by type
    name through typeMap; C15/C16: densities, diameters, closures, potentials, omegas are keyed by type name).  The
    matrix part of cost's postcondition is equivariant:  H(Q W Q^T, Q C Q^T) = Q H(W, C) Q^T  -- roots map to roots."""
    rg = Ring()
    W, C, J, Q, Qt, H, J2, H2 = rg.consts('W C J Q Qt H J2 H2')
    cj = lambda X: rg.mul(rg.mul(Q, X), Qt)
    WC = rg.mul(W, C)
    base = rg.axioms + [rg.mul(Qt, Q) == rg.one, rg.mul(Q, Qt) == rg.one] + rg.inverse_of(J, rg.sub(rg.one, WC)) + [H == rg.mul(rg.mul(J, WC), W)]
    p1 = rg.mul(cj(W), cj(C)) == cj(WC)
    L.prove('conj(W) conj(C) == conj(W C)', p1, base)
    p2 = cj(rg.one) == rg.one
    L.prove('conj(1) == 1', p2, base)
    p3 = cj(rg.sub(rg.one, WC)) == rg.sub(rg.one, rg.mul(cj(W), cj(C)))
    L.prove('conj(1 - W C) == 1 - conj(W) conj(C)', p3, rg.axioms + [p1, p2])
    p4a = rg.mul(cj(J), cj(rg.sub(rg.one, WC))) == cj(rg.mul(J, rg.sub(rg.one, WC)))
    L.prove('conj(J) conj(1 - W C) == conj(J (1 - W C))', p4a, base)
    p4 = rg.mul(cj(J), rg.sub(rg.one, rg.mul(cj(W), cj(C)))) == rg.one
    L.prove('conj(J) is the inverse of 1 - conj(W) conj(C)', p4, base + [p3, p4a, p2])
    p5 = rg.mul(rg.mul(cj(J), rg.mul(cj(W), cj(C))), cj(W)) == cj(H)
    L.prove('conj(J) conj(W) conj(C) conj(W) == conj(H)   [the permuted system has the permuted solution]', p5, base + [p1])
    import numpy as np
    rng = np.random.RandomState(3)
    n = 3
    w = rng.randn(n, n); w = 0.2 * (w + w.T)
    c = rng.randn(n, n); c = 0.2 * (c + c.T)
    q = np.eye(n)[[2, 0, 1]]
    Hm = lambda w_, c_: np.linalg.inv(np.eye(n) - w_ @ c_) @ w_ @ c_ @ w_
    L.check('numeric model: H(QWQ^T, QCQ^T) == Q H Q^T', np.allclose(Hm(q @ w @ q.T, q @ c @ q.T), q @ Hm(w, c) @ q.T), backend='numeric')
    L.check('canary: a non-orthogonal relabelling matrix breaks it', not np.allclose(Hm(2 * q @ w @ q.T, q @ c @ q.T), q @ Hm(w, c) @ q.T, rtol=1e-6), backend='numeric')


@lemma('energy-scaling-invariance', props=['C04'])
def l_scale(L):
    """Each shipped potential spec is homogeneous of degree one in its energy parameters, so U_lambda(r)/(lambda kT) =
    U(r)/kT: by PRISM.__init__'s contract every closure receives the same reduced potential, cost is the same function,
    and pmf = -kT ln g (C05 spec) is multiplied by lambda."""
    from contracts.potential import LJ126
    lam, eps, s, x, high, alpha, kT, g, rc = z3.Reals('lam eps sigma r high alpha kT lng rcut')
    pos = [lam > 0, kT > 0, x > 0, s > 0]
    ex = z3.Function('exp', R, R)
    L.prove('LennardJones: LJ(lam eps) == lam LJ(eps)', LJ126(lam * eps, s, x) == lam * LJ126(eps, s, x), pos)
    L.prove('shifted LJ / WCA: (LJ(r) - LJ(rc)) scales with lam', LJ126(lam * eps, s, x) - LJ126(lam * eps, s, rc) == lam * (LJ126(eps, s, x) - LJ126(eps, s, rc)), pos + [rc > 0])
    L.prove('HardSphere / hard cores: lam*high and 0 scale with lam', z3.If(x > s, z3.RealVal(0), lam * high) == lam * z3.If(x > s, z3.RealVal(0), high), pos)
    L.prove('Exponential: -(lam eps) exp(-(r-sigma)/alpha) scales with lam', -(lam * eps) * ex(-(x - s) / alpha) == lam * (-eps * ex(-(x - s) / alpha)), pos)
    L.prove('HardCoreLennardJones tail scales with lam', (lam * eps) * ((s / x) ** 12 - 2 * (s / x) ** 6) == lam * (eps * ((s / x) ** 12 - 2 * (s / x) ** 6)), pos)
    u = z3.Real('u')
    L.prove('reduced potential unchanged: (lam u)/(lam kT) == u/kT', (lam * u) / (lam * kT) == u / kT, pos)
    L.prove('pmf scales: -(lam kT) ln g == lam (-(kT ln g))', -((lam * kT) * g) == lam * (-(kT * g)), pos)
    L.expect_unprovable('canary: a potential with an energy-independent offset is not homogeneous', LJ126(lam * eps, s, x) + 1 == lam * (LJ126(eps, s, x) + 1), pos)


@lemma('species-split-invariance', props=['C04'])
def l_split(L):
    """Splitting one species (density rho, omega W1 = rho*omega, solution h, c of the rank-1 PRISM equation
    rho^2 h = c W1 (W1 + rho^2 h)) into A and A' with rho_A + rho_B = rho and split omegas obeying the sum rule
    sum_b W_ab = (rho_a/rho) W1 (SingleSite/NoIntra; exact block omegas): then H_ab = rho_a rho_b h, C_ab = c solves the
    2x2 PRISM equation H = W C (W + H): g_AA = g_AB = g_BB = g.  Pins site density = rho_a on / rho_a+rho_b off the
    diagonal and pair density = rho_a rho_b (C15), which is how W and H are scaled (C01/C16)."""
    wAA, wAB, wBB, rA, rB, c, h, W1 = z3.Reals('wAA wAB wBB rhoA rhoB c h W1')
    rho = rA + rB
    asm = [rA > 0, rB > 0, wAA + wAB == rA * W1 / rho, wAB + wBB == rB * W1 / rho, rho * rho * h == c * W1 * (W1 + rho * rho * h)]
    Wm = [[wAA, wAB], [wAB, wBB]]
    Cm = [[c, c], [c, c]]
    Hm = [[rA * rA * h, rA * rB * h], [rA * rB * h, rB * rB * h]]
    mm = lambda X, Y: [[sum(X[i][k] * Y[k][j] for k in range(2)) for j in range(2)] for i in range(2)]
    WpH = [[Wm[i][j] + Hm[i][j] for j in range(2)] for i in range(2)]
    RHS = mm(mm(Wm, Cm), WpH)
    for i, a in enumerate('AB'):
        for j, b in enumerate('AB'):
            L.prove('[W C (W + H)]_%s%s == H_%s%s == rho_%s rho_%s h' % (a, b, a, b, a, b), RHS[i][j] == Hm[i][j], asm, timeout_ms=60000)
    # the shipped monatomic split (SingleSite on, NoIntra off the diagonal; site density rho_a on the diagonal) obeys the sum rule
    L.prove('SingleSite/NoIntra split obeys the sum rule', z3.And(rA * 1 + (rA + rB) * 0 == rA * (rho * 1) / rho, (rA + rB) * 0 + rB * 1 == rB * (rho * 1) / rho), [rA > 0, rB > 0])
    L.expect_unprovable('canary: with pair density rho_a + rho_b instead of rho_a rho_b the split solution fails',
                        mm(mm(Wm, Cm), [[Wm[i][j] + (rA + rB) * h for j in range(2)] for i in range(2)])[0][1] == (rA + rB) * h, asm)


# --------------------------------------------------------------------------- C02: dilute limit

@lemma('dilute-limit', props=['C02'])
def l_dilute(L):
    """From cost's contract for a single-site molecule (omega = 1, Omega = rho): hhat = chat/(1 - rho chat), so
    hhat - chat = rho chat^2/(1 - rho chat) = O(rho): at vanishing density gamma = h - c -> 0 solves the equations and
    g = 1 + F(0, u), which by the C09 spec functions is exp(-u) (PY, HNC) and 1 - u (MSA, outside the core).
    second_virial (C05 spec) is -hhat(k->0)/2 -> -chat(0)/2 = -2 pi sum (e^-u - 1) r (r - dr/2) dr by the C08 Riemann-sum lemma."""
    rho, ch, hh = z3.Reals('rho chat hhat')
    asm = [rho > 0, 1 - rho * ch != 0, hh == ((1 / (1 - rho * ch)) * (rho * ch) * rho) / (rho * rho)]
    L.prove('hhat == chat / (1 - rho chat)', hh == ch / (1 - rho * ch), asm)
    L.prove('hhat - chat == rho chat^2/(1 - rho chat)  (vanishes with the density)', hh - ch == rho * ch * ch / (1 - rho * ch), asm)
    u = z3.Real('u')
    ex = z3.Function('exp', R, R)
    L.prove('PY:  1 + F_PY(0,u)  == exp(-u)', 1 + F_PY(z3.RealVal(0), u) == ex(-u), [])
    L.prove('HNC: 1 + F_HNC(0,u) == exp(-u)', 1 + F_HNC(z3.RealVal(0), u) == ex(0 - u), [])
    L.prove('MSA: 1 + F_MSA(0,u) == 1 - u', 1 + F_MSA(z3.RealVal(0), u) == 1 - u, [])
    B2, pi, S = z3.Reals('B2 pi S')
    L.prove('B2 == -hhat(0)/2 with hhat(0) == 4 pi S  ==>  B2 == -2 pi S', z3.Implies(z3.And(B2 == -hh / 2, hh == 4 * pi * S), B2 == -2 * pi * S), [])


# --------------------------------------------------------------------------- Lean second opinion (thorough tier only)

@lemma('lean-ring-lemmas', props=['C01', 'C04', 'C05'])
def l_lean(L):
    """lemmas/Ring.lean states the PRISM fixed-point lemma, the S(k) identity and the permutation equivariance for an
    arbitrary ring and is re-checked by Lean 4 + Mathlib (about 3 min cold, hence thorough tier only).  A second opinion:
    the z3 hint chains above decide the same statements on every run."""
    if L.tier != 'thorough':
        return
    import os
    import re
    import shutil
    import subprocess
    import time
    path = os.path.join(L.verif, 'lemmas', 'Ring.lean')
    src = open(path).read()
    L.check('Ring.lean contains no sorry / admit / axiom', not re.search(r'\b(sorry|admit|axiom)\b', re.sub(r'/-.*?-/', '', src, flags=re.S)), backend='syntactic')
    if shutil.which('lean') is None:
        L.undecided('lean re-check', 'lean not on PATH', backend='lean')
        return
    t0 = time.time()
    try:
        p = subprocess.run(['lean', path], capture_output=True, text=True, timeout=1500)
        ok = p.returncode == 0 and 'error' not in (p.stdout + p.stderr)
        L.record('lean accepts prism_fixed_point, structure_factor_identity, permutation_equivariance', 'proved' if ok else 'unknown', 'lean4+mathlib',
                 time.time() - t0, detail='' if ok else (p.stdout + p.stderr)[-1500:])
    except subprocess.TimeoutExpired:
        L.undecided('lean re-check', 'lean timed out after 1500 s', backend='lean')


@lemma('wca-is-non-negative-and-continuous', props=['C10'])
def l_wca(L):
    """With the verified spec of WeeksChandlerAndersen.calculate (LJ(r) - LJ(r_c) for r <= r_c = 2^(1/6) sigma, 0 beyond):
    writing x = (sigma/r)^6 and using (sigma/r_c)^6 = 1/2:  LJ(r_c) = -eps,  u = 4 eps (x^2 - x) + eps = eps (2x - 1)^2 >= 0
    for eps >= 0, and u = 0 at r = r_c (x = 1/2): non-negative, vanishing at and beyond the cut, continuous there."""
    eps, x = z3.Reals('eps x')
    LJx = lambda xx: 4 * eps * (xx * xx - xx)
    half = z3.RealVal('1/2')
    L.prove('LJ at the cut-off equals -eps', LJx(half) == -eps, [])
    L.prove('u == eps (2x - 1)^2', LJx(x) - LJx(half) == eps * (2 * x - 1) * (2 * x - 1), [])
    L.prove('eps >= 0 ==> u >= 0', z3.Implies(eps >= 0, LJx(x) - LJx(half) >= 0), [])
    L.prove('u == 0 at the cut-off (continuity with the zero tail)', LJx(half) - LJx(half) == 0, [])
    L.expect_unprovable('canary: negative eps gives a negative WCA potential somewhere', z3.Implies(eps < 0, LJx(x) - LJx(half) >= 0), [])
