"""Contracts for pyPRISM/potential/*.py  (property C10; hard-core clause of C03; callee contracts for C01/C16).

Pre-states are obtained by running the real constructor (so `self.funk` is the
lambda the constructor captured, A6) with symbolic parameters.
"""
from pyvc.api import *

P = 'pyPRISM.potential.'


def LJ126(eps, s, x):
    return 4 * eps * (ipow(s / x, 12) - ipow(s / x, 6))


@contract('pyPRISM/potential/HardSphere.py::HardSphere.calculate', props=['C10', 'C03'])
def HardSphere_calculate(self, r):
    if self.sigma is None:
        raise AssertionError
    sigma = self.sigma
    high = self.high_value
    return pointwise(len(r), lambda i: 0.0 if r[i] > sigma else high)


@contract('pyPRISM/potential/Exponential.py::Exponential.calculate', props=['C10', 'C03'])
def Exponential_calculate(self, r):
    if self.sigma is None:
        raise AssertionError
    sigma = self.sigma
    high = self.high_value
    eps = self.epsilon
    alpha = self.alpha
    return pointwise(len(r), lambda i: -eps * exp(-(r[i] - sigma) / alpha) if r[i] > sigma else high)


@contract('pyPRISM/potential/HardCoreLennardJones.py::HardCoreLennardJones.calculate', props=['C10', 'C03'])
def HardCoreLennardJones_calculate(self, r):
    if self.sigma is None:
        raise AssertionError
    sigma = self.sigma
    high = self.high_value
    eps = self.epsilon
    return pointwise(len(r), lambda i: eps * (ipow(sigma / r[i], 12) - 2.0 * ipow(sigma / r[i], 6)) if r[i] > sigma else high)


@contract('pyPRISM/potential/LennardJones.py::LennardJones.calculate', props=['C10'])
def LennardJones_calculate(self, r):
    if self.sigma is None:
        raise AssertionError
    sigma = self.sigma
    eps = self.epsilon
    if self.rcut is None:
        return pointwise(len(r), lambda i: LJ126(eps, sigma, r[i]))
    rcut = self.rcut
    if self.shift:
        return pointwise(len(r), lambda i: LJ126(eps, sigma, r[i]) - LJ126(eps, sigma, rcut) if r[i] <= rcut else 0.0)
    return pointwise(len(r), lambda i: LJ126(eps, sigma, r[i]) if r[i] <= rcut else 0.0)


@contract('pyPRISM/potential/WeeksChandlerAndersen.py::WeeksChandlerAndersen.calculate', props=['C10'])
def WeeksChandlerAndersen_calculate(self, r):
    if self.sigma is None:
        raise AssertionError
    sigma = self.sigma
    eps = self.epsilon
    rcut = sigma * 2 ** (1.0 / 6.0)
    self.rcut = rcut          # the only attribute calculate writes; recomputed from sigma on every call
    return pointwise(len(r), lambda i: LJ126(eps, sigma, r[i]) - LJ126(eps, sigma, rcut) if r[i] <= rcut else 0.0)


def _grid(f, dtype):
    n = f.int('n', lo=0)
    return f.array('r', (n,), dtype=dtype)


def _mk(gen):
    return gen


@cases(HardSphere_calculate)
def _hs_cases():
    for sig in ('real', 'none'):
        for dt in ('real', 'int'):
            def build(f, sig=sig, dt=dt):
                self = f.construct(P + 'HardSphere:HardSphere', sigma=f.real('sigma') if sig == 'real' else None,
                                   high_value=f.real('high'))
                return dict(self=self, r=_grid(f, dt))
            yield 'sigma=%s,r=%s' % (sig, dt), build, ({'history': {'method': 'calculate', 'mutable': ('sigma',), 'other': True}} if sig == 'real' and dt == 'real' else {})
    def build2(f):
        # sigma left unset by the user and filled in later (what PRISM.__init__ does)
        self = f.construct(P + 'HardSphere:HardSphere', high_value=f.real('high'))
        f.setattr(self, 'sigma', f.real('sigma'))
        return dict(self=self, r=_grid(f, 'real'))
    yield 'sigma=assigned-later,r=real', build2


@cases(Exponential_calculate)
def _exp_cases():
    for sig in ('real', 'none'):
        for dt in ('real', 'int'):
            def build(f, sig=sig, dt=dt):
                self = f.construct(P + 'Exponential:Exponential', epsilon=f.real('eps'), alpha=f.real('alpha', nonzero=True),
                                   sigma=f.real('sigma') if sig == 'real' else None, high_value=f.real('high'))
                return dict(self=self, r=_grid(f, dt))
            yield 'sigma=%s,r=%s' % (sig, dt), build, ({'history': {'method': 'calculate', 'mutable': ('sigma',), 'other': True}} if sig == 'real' and dt == 'real' else {})


@cases(HardCoreLennardJones_calculate)
def _hclj_cases():
    for sig in ('real', 'none'):
        for dt in ('real', 'int'):
            def build(f, sig=sig, dt=dt):
                self = f.construct(P + 'HardCoreLennardJones:HardCoreLennardJones', epsilon=f.real('eps'),
                                   sigma=f.real('sigma') if sig == 'real' else None, high_value=f.real('high'))
                return dict(self=self, r=_grid(f, dt))
            yield 'sigma=%s,r=%s' % (sig, dt), build, ({'history': {'method': 'calculate', 'mutable': ('sigma',), 'other': True}} if sig == 'real' and dt == 'real' else {})


@cases(LennardJones_calculate)
def _lj_cases():
    for sig in ('real', 'none'):
        for rc in ('none', 'real'):
            for shift in (False, True):
                for dt in ('real', 'int'):
                    def build(f, sig=sig, rc=rc, shift=shift, dt=dt):
                        self = f.construct(P + 'LennardJones:LennardJones', epsilon=f.real('eps'),
                                           sigma=f.real('sigma') if sig == 'real' else None,
                                           rcut=f.real('rcut') if rc == 'real' else None, shift=shift)
                        return dict(self=self, r=_grid(f, dt))
                    yield 'sigma=%s,rcut=%s,shift=%s,r=%s' % (sig, rc, shift, dt), build, ({'history': {'method': 'calculate', 'mutable': ('sigma', 'rcut', 'shift'), 'other': True}} if sig == 'real' and dt == 'real' else {})


@cases(WeeksChandlerAndersen_calculate)
def _wca_cases():
    for sig in ('real', 'none'):
        for dt in ('real', 'int'):
            def build(f, sig=sig, dt=dt):
                self = f.construct(P + 'WeeksChandlerAndersen:WeeksChandlerAndersen', epsilon=f.real('eps'),
                                   sigma=f.real('sigma') if sig == 'real' else None)
                return dict(self=self, r=_grid(f, dt))
            yield 'sigma=%s,r=%s' % (sig, dt), build, ({'history': {'method': 'calculate', 'mutable': ('sigma',), 'other': True}} if sig == 'real' and dt == 'real' else {})
    def build_seq(f):
        # sigma re-assigned after an earlier evaluation (sigma sweep on one object)
        self = f.construct(P + 'WeeksChandlerAndersen:WeeksChandlerAndersen', epsilon=f.real('eps'), sigma=f.real('sigma0'))
        f.call(self, 'calculate', _grid(f, 'real'))
        f.setattr(self, 'sigma', f.real('sigma'))
        return dict(self=self, r=f.array('r2', (f.int('n2', lo=0),)))
    yield 'sigma re-assigned after a first evaluation', build_seq
