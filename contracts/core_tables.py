"""Contracts for pyPRISM/core/Table.py, PairTable.py, ValueTable.py  (property C14; callee contracts
for C15, C16, C12, C01).

Abstract view of a PairTable: a map from pairs of type labels to values (None = unset).
Well-formedness of symmetric tables: values[a][b] *is* values[b][a].
Stored user values are opaque objects known only by identity (SRef / Opaque), so that the
copy-isolation clause is a statement about object identity.
"""
import copy
from pyvc.api import *
from pyPRISM.core.PairTable import PairTable
from pyPRISM.core.MatrixArray import MatrixArray
from pyPRISM.core.Space import Space

PT = 'pyPRISM.core.PairTable:PairTable'
VT = 'pyPRISM.core.ValueTable:ValueTable'
TB = 'pyPRISM.core.Table:Table'
SP = 'pyPRISM.core.Space:Space'
LABELS = ['C', 'A', 'D', 'B']      # deliberately not in alphabetical order: nothing may depend on the names' order
import os as _os
_THOROUGH = _os.environ.get('PYVC_TIER') == 'thorough'      # the thorough tier adds rank / type-list size 4
SIZES = (1, 2, 3, 4) if _THOROUGH else (1, 2, 3)


def mk_PT(f, name, n, symmetric=True, mk_val=None, all_set=False):
    types = list(LABELS[:n])
    vals = dict((t, {}) for t in types)
    for i, a in enumerate(types):
        for j, b in enumerate(types):
            if symmetric and j < i:
                vals[a][b] = vals[b][a]
                continue
            v = mk_val(a, b) if mk_val else f.ref('%s_%s%s' % (name, a, b))
            vals[a][b] = v if all_set else f.opt('%s_%s%s' % (name, a, b), v)
    return f.make(PT, args=(types, name, symmetric), types=types, symmetric=symmetric, name=name, values=vals)


def mk_VT(f, name, n, mk_val=None, all_set=False):
    types = list(LABELS[:n])
    vals = {}
    for a in types:
        v = mk_val(a) if mk_val else f.ref('%s_%s' % (name, a))
        vals[a] = v if all_set else f.opt('%s_%s' % (name, a), v)
    return f.make(VT, args=(types, name), types=types, name=name, values=vals)


def key_choices(n):
    types = LABELS[:n]
    out = [types[0]]
    if n > 1:
        out += [types[n - 1], list(types), [types[n - 1], types[0]]]
    else:
        out += [list(types)]
    return out


def kname(k):
    return k if isinstance(k, str) else '[' + ','.join(k) + ']'


# --------------------------------------------------------------------------- Table.listify

@contract('pyPRISM/core/Table.py::Table.listify', props=['C14'])
def Table_listify(self, values):
    if isinstance(values, str):
        return [values]
    if isinstance(values, (list, tuple)):
        return list(values)          # a new list with the same items in order
    return [values]                  # non-iterable (number, object): wrapped


@cases(Table_listify)
def _listify_cases():
    for kind in ('str', 'list', 'tuple', 'number', 'empty-list'):
        def build(f, kind=kind):
            v = {'str': LABELS[0], 'list': [LABELS[0], LABELS[1]], 'tuple': (LABELS[1], LABELS[0]), 'number': f.real('x'), 'empty-list': []}[kind]
            return dict(self=f.obj(TB), values=v)
        yield kind, build


# --------------------------------------------------------------------------- PairTable

@contract('pyPRISM/core/PairTable.py::PairTable.__init__', props=['C14'])
def PairTable_init(self, types, name, symmetric=True):
    self.types = types
    self.symmetric = symmetric
    self.name = name
    self.values = dict([(t1, dict([(t2, None) for t2 in types])) for t1 in types])


@cases(PairTable_init)
def _pt_init_cases():
    for n in tuple(sorted(set(SIZES + (4,)))):
        for sym in (True, False):
            def build(f, n=n, sym=sym):
                return dict(self=f.obj(PT), types=list(LABELS[:n]), name='tbl', symmetric=sym)
            yield 'types=%d,symmetric=%s' % (n, sym), build


@contract('pyPRISM/core/PairTable.py::PairTable.__getitem__', props=['C14', 'C04'])
def PairTable_getitem(self, index):
    t1, t2 = index
    return self.values[t1][t2]


@cases(PairTable_getitem)
def _pt_get_cases():
    for n in SIZES:
        for a in LABELS[:n]:
            for b in LABELS[:n]:
                def build(f, n=n, a=a, b=b):
                    return dict(self=mk_PT(f, 'T', n), index=(a, b))
                yield 'types=%d,%s-%s' % (n, a, b), build


@contract('pyPRISM/core/PairTable.py::PairTable.__setitem__', props=['C14', 'C16', 'C04'])
def PairTable_setitem(self, index, value):
    types1, types2 = index
    K1 = self.listify(types1)
    K2 = self.listify(types2)
    done = []
    for t1 in K1:
        for t2 in K2:
            if self.symmetric:
                if (t1, t2) in done or (t2, t1) in done:
                    continue          # the unordered pair already has its copy
                done.append((t1, t2))
                c = copy.deepcopy(value)      # one fresh, independent copy per assigned unordered pair
                self.values[t1][t2] = c
                self.values[t2][t1] = c       # the same object from (a,b) and (b,a)
            else:
                if (t1, t2) in done:
                    continue
                done.append((t1, t2))
                self.values[t1][t2] = copy.deepcopy(value)


@cases(PairTable_setitem)
def _pt_set_cases():
    for n in SIZES:
        for sym in (True, False):
            ks = key_choices(n)
            for k1 in ks:
                for k2 in ks:
                    def build(f, n=n, sym=sym, k1=k1, k2=k2):
                        return dict(self=mk_PT(f, 'T', n, symmetric=sym), index=(k1, k2), value=f.ref('v'))
                    yield 'types=%d,symmetric=%s,key=%s,%s' % (n, sym, kname(k1), kname(k2)), build
    def build_none(f):
        return dict(self=mk_PT(f, 'T', 2), index=(LABELS[0], LABELS[1]), value=None)
    yield 'types=2,assign None', build_none
    def build_list(f):
        # a mutable python value: the stored object must be a copy, also of the nested list
        return dict(self=mk_PT(f, 'T', 2), index=([LABELS[0], LABELS[1]], [LABELS[0], LABELS[1]]), value=[f.ref('x'), [f.ref('y')]])
    yield 'types=2,assign nested list to all pairs', build_list


def _pairs(self, full, diagonal):
    out = []
    n = len(self.types)
    for i in range(n):
        for j in range(n):
            if full or (i <= j and diagonal) or (i < j and not diagonal):
                out.append((i, j))
    return out


@contract('pyPRISM/core/PairTable.py::PairTable.__iter__', props=['C14', 'C04'])
def PairTable_iter(self):
    for (i, j) in _pairs(self, True, True):
        yield (i, j), (self.types[i], self.types[j]), self.values[self.types[i]][self.types[j]]


@contract('pyPRISM/core/PairTable.py::PairTable.iterpairs', props=['C14', 'C04'])
def PairTable_iterpairs(self, full=False, diagonal=True):
    for (i, j) in _pairs(self, full, diagonal):
        yield (i, j), (self.types[i], self.types[j]), self.values[self.types[i]][self.types[j]]


@cases(PairTable_iter)
def _pt_iter_cases():
    for n in tuple(sorted(set(SIZES + (4,)))):
        def build(f, n=n):
            return dict(self=mk_PT(f, 'T', n))
        yield 'types=%d' % n, build


@cases(PairTable_iterpairs)
def _pt_iterpairs_cases():
    for n in tuple(sorted(set(SIZES + (4,)))):
        for full in (False, True):
            for diag in (True, False):
                def build(f, n=n, full=full, diag=diag):
                    return dict(self=mk_PT(f, 'T', n), full=full, diagonal=diag)
                yield 'types=%d,full=%s,diagonal=%s' % (n, full, diag), build


@contract('pyPRISM/core/PairTable.py::PairTable.check', props=['C14', 'C16'])
def PairTable_check(self):
    for (i, j) in _pairs(self, False, True):
        if self.values[self.types[i]][self.types[j]] is None:
            raise ValueError            # raised exactly when some (unordered) pair is unset


@cases(PairTable_check)
def _pt_check_cases():
    for n in SIZES:
        def build(f, n=n):
            return dict(self=mk_PT(f, 'T', n))
        yield 'types=%d' % n, build
    for n in SIZES[:2]:
        def build2(f, n=n):
            # values with an elementwise `==` (numpy arrays of any length, also 0 and 1): `is None` is not `== None`
            return dict(self=mk_PT(f, 'T', n, mk_val=lambda a, b: f.array('T_%s%s' % (a, b), (f.int('L_%s%s' % (a, b), lo=0),))))
        yield 'types=%d, array values' % n, build2


@contract('pyPRISM/core/PairTable.py::PairTable.setUnset', props=['C14'])
def PairTable_setUnset(self, value):
    for (i, j) in _pairs(self, False, True):
        t1 = self.types[i]
        t2 = self.types[j]
        if self.values[t1][t2] is None:       # fills exactly the pairs never assigned
            c = copy.deepcopy(value)
            self.values[t1][t2] = c
            if self.symmetric:
                self.values[t2][t1] = c


@cases(PairTable_setUnset)
def _pt_setunset_cases():
    for n in SIZES:
        def build(f, n=n):
            return dict(self=mk_PT(f, 'T', n), value=f.ref('v'))
        yield 'types=%d' % n, build


@contract('pyPRISM/core/PairTable.py::PairTable.apply', props=['C14', 'C16'])
def PairTable_apply(self, func, inplace=True):
    if inplace:
        table = self
    else:
        table = PairTable(types=self.types, name=self.name, symmetric=self.symmetric)
    for (i, j) in _pairs(self, False, True):
        t1 = self.types[i]
        t2 = self.types[j]
        c = copy.deepcopy(func(self.values[t1][t2]))
        table.values[t1][t2] = c
        if table.symmetric:
            table.values[t2][t1] = c
    return table


@cases(PairTable_apply)
def _pt_apply_cases():
    for n in SIZES:
        for inplace in (True, False):
            def build(f, n=n, inplace=inplace):
                return dict(self=mk_PT(f, 'T', n, all_set=True), func=f.ufunc('g'), inplace=inplace)
            yield 'types=%d,inplace=%s' % (n, inplace), build


@contract('pyPRISM/core/PairTable.py::PairTable.exportToMatrixArray', props=['C14', 'C12', 'C16'])
def PairTable_exportToMatrixArray(self, space=Space.Real):
    n = len(self.types)
    vals = [[None for j in range(n)] for i in range(n)]
    lengths = []
    for (i, j) in _pairs(self, False, True):
        v = self.values[self.types[i]][self.types[j]]
        if v is None:
            raise ValueError
        lengths.append(len(v))          # TypeError for 0-d data (a one-number file)
        vals[i][j] = v
    for x in lengths:
        if x != lengths[0]:
            raise ValueError            # arrays of different lengths are never combined
    length = lengths[0]
    MA = MatrixArray(length=length, rank=n, space=space, types=self.types)
    MA.data = pointwise((length, n, n), lambda l, a, b: sum(
        [(vals[i][j][l] if ((a == i and b == j) or (a == j and b == i)) else 0.0) for i in range(n) for j in range(i, n)]))
    return MA


@cases(PairTable_exportToMatrixArray)
def _pt_export_cases():
    for n in SIZES:
        for kind in ('arrays', 'one 0-d'):
            def build(f, n=n, kind=kind):
                def mk(a, b):
                    if kind == 'one 0-d' and (a, b) == (LABELS[0], LABELS[0]):
                        return f.array('w_%s%s' % (a, b), ())
                    return f.array('w_%s%s' % (a, b), (f.int('L_%s%s' % (a, b), lo=1),))
                return dict(self=mk_PT(f, 'T', n, mk_val=mk), space=f.enum_sym('space', SP))
            yield 'types=%d,%s' % (n, kind), build


# --------------------------------------------------------------------------- ValueTable

@contract('pyPRISM/core/ValueTable.py::ValueTable.__init__', props=['C14'])
def ValueTable_init(self, types, name):
    self.types = types
    self.name = name
    self.values = dict([(t, None) for t in types])


@cases(ValueTable_init)
def _vt_init_cases():
    for n in tuple(sorted(set(SIZES + (4,)))):
        def build(f, n=n):
            return dict(self=f.obj(VT), types=list(LABELS[:n]), name='tbl')
        yield 'types=%d' % n, build


@contract('pyPRISM/core/ValueTable.py::ValueTable.__getitem__', props=['C14'])
def ValueTable_getitem(self, index):
    return self.values[index]


@cases(ValueTable_getitem)
def _vt_get_cases():
    for n in SIZES:
        for a in LABELS[:n]:
            def build(f, n=n, a=a):
                return dict(self=mk_VT(f, 'T', n), index=a)
            yield 'types=%d,%s' % (n, a), build


@contract('pyPRISM/core/ValueTable.py::ValueTable.__setitem__', props=['C14', 'C15'])
def ValueTable_setitem(self, index, value):
    for t in self.listify(index):
        self.values[t] = value


@cases(ValueTable_setitem)
def _vt_set_cases():
    for n in SIZES:
        for k in key_choices(n):
            def build(f, n=n, k=k):
                return dict(self=mk_VT(f, 'T', n), index=k, value=f.ref('v'))
            yield 'types=%d,key=%s' % (n, kname(k)), build


@contract('pyPRISM/core/ValueTable.py::ValueTable.__iter__', props=['C14'])
def ValueTable_iter(self):
    for i in range(len(self.types)):
        yield i, self.types[i], self.values[self.types[i]]


@cases(ValueTable_iter)
def _vt_iter_cases():
    for n in tuple(sorted(set(SIZES + (4,)))):
        def build(f, n=n):
            return dict(self=mk_VT(f, 'T', n))
        yield 'types=%d' % n, build


@contract('pyPRISM/core/ValueTable.py::ValueTable.check', props=['C14', 'C15', 'C16'])
def ValueTable_check(self):
    for t in self.types:
        if self.values[t] is None:
            raise ValueError


@cases(ValueTable_check)
def _vt_check_cases():
    for n in SIZES:
        def build(f, n=n):
            return dict(self=mk_VT(f, 'T', n))
        yield 'types=%d' % n, build
    for n in SIZES:
        def build2(f, n=n):
            # values with an elementwise `==` (numpy arrays of any length, also 0 and 1): `is None` is not `== None`
            return dict(self=mk_VT(f, 'T', n, mk_val=lambda a: f.array('T_%s' % a, (f.int('L_%s' % a, lo=0),))))
        yield 'types=%d, array values' % n, build2


@contract('pyPRISM/core/ValueTable.py::ValueTable.setUnset', props=['C14'])
def ValueTable_setUnset(self, value):
    for t in self.types:
        if self.values[t] is None:
            self.values[t] = value


@cases(ValueTable_setUnset)
def _vt_setunset_cases():
    for n in SIZES:
        def build(f, n=n):
            return dict(self=mk_VT(f, 'T', n), value=f.ref('v'))
        yield 'types=%d' % n, build
