"""Symbolic value domain of the pyvc verifier.

Scalars are plain Python ints / Fractions / bools when concrete and z3
terms (Int, Real, Bool sort) when symbolic.  Floats are mathematical reals
(assumption A1 of DESIGN.md): float literals are read as exact decimal
fractions and all arithmetic is exact.
"""
import z3
from fractions import Fraction


class Unsupported(Exception):
    """The program left the subset the executor understands (=> undecided)."""


class SymRaise(Exception):
    """The interpreted program raised an exception."""

    def __init__(self, name, msg=None):
        Exception.__init__(self, name)
        self.name = name
        self.msg = msg


class Infeasible(Exception):
    """Current path has an unsatisfiable path condition / violated assumption."""


# ---------------------------------------------------------------------------
# exception hierarchy known to the executor (name -> direct bases)
EXC_BASES = {
    'BaseException': [],
    'Exception': ['BaseException'],
    'ArithmeticError': ['Exception'],
    'ZeroDivisionError': ['ArithmeticError'],
    'AssertionError': ['Exception'],
    'AttributeError': ['Exception'],
    'LookupError': ['Exception'],
    'KeyError': ['LookupError'],
    'IndexError': ['LookupError'],
    'TypeError': ['Exception'],
    'ValueError': ['Exception'],
    'RuntimeError': ['Exception'],
    'NotImplementedError': ['RuntimeError'],
    'StopIteration': ['Exception'],
    'OSError': ['Exception'],
    # numpy.linalg
    'LinAlgError': ['ValueError'],
    # pint
    'PintError': ['Exception'],
    'DimensionalityError': ['PintError', 'TypeError'],
    'UndefinedUnitError': ['AttributeError', 'PintError'],
    'OffsetUnitCalculusError': ['PintError', 'TypeError'],
}


def exc_isinstance(name, cls):
    if name == cls:
        return True
    seen = set()
    todo = [name]
    while todo:
        n = todo.pop()
        if n == cls:
            return True
        if n in seen:
            continue
        seen.add(n)
        todo.extend(EXC_BASES.get(n, []))
    return False


# ---------------------------------------------------------------------------
# scalars

def is_sym(v):
    return isinstance(v, z3.ExprRef)


def is_num(v):
    return (isinstance(v, (int, Fraction, float)) and not isinstance(v, bool)) or \
        (is_sym(v) and z3.is_arith(v))


def is_concrete_num(v):
    return isinstance(v, (int, Fraction)) and not isinstance(v, bool)


def is_boolish(v):
    return isinstance(v, bool) or (is_sym(v) and z3.is_bool(v))


def lit_float(f):
    """A Python float literal/constant as an exact fraction of its repr."""
    if isinstance(f, float):
        if f != f or f in (float('inf'), float('-inf')):
            raise Unsupported('non-finite float constant')
        fr = Fraction(repr(f))
        return fr
    return f


def to_z3(v):
    if is_sym(v):
        return v
    if isinstance(v, bool):
        return z3.BoolVal(v)
    if isinstance(v, int):
        return z3.IntVal(v)
    if isinstance(v, Fraction):
        return z3.RealVal(str(v.numerator) + '/' + str(v.denominator)) if v.denominator != 1 else z3.RealVal(v.numerator)
    if isinstance(v, float):
        return to_z3(lit_float(v))
    raise Unsupported('cannot convert %r to a z3 term' % (v,))


def to_real(v):
    if is_sym(v):
        if z3.is_int(v):
            return z3.ToReal(v)
        if z3.is_bool(v):
            return z3.If(v, z3.RealVal(1), z3.RealVal(0))
        return v
    if isinstance(v, bool):
        return z3.RealVal(1 if v else 0)
    if isinstance(v, int):
        return z3.RealVal(v)
    if isinstance(v, Fraction):
        return to_z3(v)
    if isinstance(v, float):
        return to_z3(lit_float(v))
    raise Unsupported('cannot convert %r to a real term' % (v,))


def to_int(v):
    if is_sym(v):
        if z3.is_int(v):
            return v
        raise Unsupported('real used where an integer is required')
    if isinstance(v, bool):
        return z3.IntVal(int(v))
    if isinstance(v, int):
        return z3.IntVal(v)
    if isinstance(v, Fraction) and v.denominator == 1:
        return z3.IntVal(v.numerator)
    raise Unsupported('cannot convert %r to an int term' % (v,))


def to_bool(v):
    if is_sym(v):
        if z3.is_bool(v):
            return v
        if z3.is_int(v):
            return v != 0
        if z3.is_real(v):
            return v != 0
    if isinstance(v, bool):
        return z3.BoolVal(v)
    raise Unsupported('cannot convert %r to a bool term' % (v,))


def _coerce2(a, b):
    """Bring two numeric operands to a common z3 sort."""
    a_int = isinstance(a, int) or (is_sym(a) and z3.is_int(a))
    b_int = isinstance(b, int) or (is_sym(b) and z3.is_int(b))
    if isinstance(a, bool) or isinstance(b, bool) or (is_sym(a) and z3.is_bool(a)) or (is_sym(b) and z3.is_bool(b)):
        # bools in arithmetic count as ints
        if isinstance(a, bool):
            a = int(a)
        if isinstance(b, bool):
            b = int(b)
        if is_sym(a) and z3.is_bool(a):
            a = z3.If(a, z3.IntVal(1), z3.IntVal(0))
        if is_sym(b) and z3.is_bool(b):
            b = z3.If(b, z3.IntVal(1), z3.IntVal(0))
        return _coerce2(a, b)
    if a_int and b_int:
        return to_int(a), to_int(b)
    return to_real(a), to_real(b)


def mk_add(a, b):
    if not is_sym(a) and not is_sym(b):
        return a + b
    if not is_sym(a) and a == 0:
        return b if not (is_sym(b) and z3.is_bool(b)) else _coerce2(a, b)[1]
    if not is_sym(b) and b == 0:
        return a if not (is_sym(a) and z3.is_bool(a)) else _coerce2(a, b)[0]
    x, y = _coerce2(a, b)
    return x + y


def mk_sub(a, b):
    if not is_sym(a) and not is_sym(b):
        return a - b
    if not is_sym(b) and b == 0:
        return a
    x, y = _coerce2(a, b)
    return x - y


def mk_mul(a, b):
    if not is_sym(a) and not is_sym(b):
        return a * b
    if not is_sym(a) and a == 1 and not isinstance(a, bool):
        return b
    if not is_sym(b) and b == 1 and not isinstance(b, bool):
        return a
    x, y = _coerce2(a, b)
    return x * y


def mk_neg(a):
    if not is_sym(a):
        return -a
    if z3.is_bool(a):
        a = z3.If(a, z3.IntVal(1), z3.IntVal(0))
    return -a


def mk_div(a, b):
    """True division (Python 3 / `from __future__ import division`)."""
    if not is_sym(a) and not is_sym(b):
        if b == 0:
            raise SymRaise('ZeroDivisionError')
        return Fraction(a) / Fraction(b)
    if not is_sym(b) and b == 1:
        return to_real(a)
    return to_real(a) / to_real(b)


def mk_floordiv(a, b):
    if not is_sym(a) and not is_sym(b):
        if b == 0:
            raise SymRaise('ZeroDivisionError')
        return a // b
    x, y = _coerce2(a, b)
    if z3.is_int(x):
        return x / y   # z3 integer division (floor for positive divisor)
    raise Unsupported('floor division of reals')


def mk_mod(a, b):
    if not is_sym(a) and not is_sym(b):
        return a % b
    x, y = _coerce2(a, b)
    if z3.is_int(x):
        return x % y
    raise Unsupported('modulo of reals')


def mk_abs(a):
    if not is_sym(a):
        return abs(a)
    return z3.If(a >= 0, a, -a)


def mk_cmp(op, a, b):
    """op in '<','<=','>','>=','==','!='; numeric operands."""
    if not is_sym(a) and not is_sym(b):
        return {'<': a < b, '<=': a <= b, '>': a > b, '>=': a >= b,
                '==': a == b, '!=': a != b}[op]
    if is_boolish(a) and is_boolish(b) and op in ('==', '!='):
        x, y = to_bool(a), to_bool(b)
    else:
        x, y = _coerce2(a, b)
    if op == '<':
        return x < y
    if op == '<=':
        return x <= y
    if op == '>':
        return x > y
    if op == '>=':
        return x >= y
    if op == '==':
        return x == y
    return x != y


def mk_not(a):
    if isinstance(a, bool):
        return not a
    return z3.Not(to_bool(a))


def mk_and(*xs):
    out = []
    for x in xs:
        if isinstance(x, bool):
            if not x:
                return False
            continue
        out.append(to_bool(x))
    if not out:
        return True
    if len(out) == 1:
        return out[0]
    return z3.And(*out)


def mk_or(*xs):
    out = []
    for x in xs:
        if isinstance(x, bool):
            if x:
                return True
            continue
        out.append(to_bool(x))
    if not out:
        return False
    if len(out) == 1:
        return out[0]
    return z3.Or(*out)


def mk_implies(a, b):
    return mk_or(mk_not(a), b)


def mk_ite(c, a, b):
    if isinstance(c, bool):
        return a if c else b
    if a is b:
        return a
    if is_boolish(a) and is_boolish(b):
        return z3.If(c, to_bool(a), to_bool(b))
    if (is_num(a) or isinstance(a, bool)) and (is_num(b) or isinstance(b, bool)):
        x, y = _coerce2(a, b)
        return z3.If(c, x, y)
    raise Unsupported('conditional over non-scalar values')


def mk_eq(a, b):
    return mk_cmp('==', a, b)


def same_term(a, b):
    """Cheap syntactic identity (used to avoid generating trivial forks)."""
    if not is_sym(a) and not is_sym(b):
        return a == b
    if is_sym(a) and is_sym(b):
        return a.eq(b)
    return False


# ---------------------------------------------------------------------------
# uninterpreted real functions (transcendentals) and constants

_FUNCS = {}


def ufun(name, arity=1, sort=None):
    key = (name, arity)
    if key not in _FUNCS:
        R = z3.RealSort()
        _FUNCS[key] = z3.Function(name, *([R] * arity + [R]))
    return _FUNCS[key]


PI = z3.Real('pi')
PI_FACTS = [PI > z3.RealVal('3.14159265358979'), PI < z3.RealVal('3.14159265358980')]


def is_int_valued(e):
    return isinstance(e, int) or (isinstance(e, Fraction) and e.denominator == 1)


# ---------------------------------------------------------------------------
# enum members (pyPRISM.core.Space)

class SEnum(object):
    """Concrete enum member."""

    def __init__(self, cls, name, value):
        self.cls = cls
        self.name = name
        self.value = value

    def __repr__(self):
        return '%s.%s' % (self.cls, self.name)

    def __eq__(self, other):
        return isinstance(other, SEnum) and other.cls == self.cls and other.name == self.name

    def __ne__(self, other):
        return not self.__eq__(other)

    def __hash__(self):
        return hash((self.cls, self.name))


class SEnumSym(object):
    """Symbolic enum member: `term` is a z3 Int constrained to the member values."""

    def __init__(self, cls, term):
        self.cls = cls
        self.term = term


# ---------------------------------------------------------------------------
# optional values / opaque references

class SOpt(object):
    """Either None (when `isnone`) or `val`.  `isnone` is a z3 Bool."""

    def __init__(self, isnone, val):
        self.isnone = isnone
        self.val = val


class SRef(object):
    """Opaque user object known only by identity.  `key` is a hashable id;
    `origin` is the SRef it is a deep copy of (ghost `copy_of` relation)."""

    _n = 0

    def __init__(self, key, origin=None):
        self.key = key
        self.origin = origin

    def __repr__(self):
        return 'SRef(%r%s)' % (self.key, ', copy_of=%r' % (self.origin.key,) if self.origin else '')


class SStr(object):
    """Opaque (formatted) string; only ever used as a message."""

    def __repr__(self):
        return '<str>'


def check_deadline(solver, seconds, *assumptions):
    """solver.check(); the solver's own `timeout` parameter is the (soft) bound.  (Interrupting the context from a timer
    thread proved unsafe: z3 5.1 hits internal assertion violations.)  Hard bounds use forked_check."""
    try:
        return solver.check(*assumptions)
    except z3.Z3Exception:
        return z3.unknown


def forked_check(solver, seconds):
    """solver.check() in a forked child that is killed at the deadline: a hard wall-clock bound (z3 honours neither its
    `timeout` nor an interrupt inside some nonlinear preprocessing).  -> 'sat' | 'unsat' | 'unknown'."""
    import os
    import select
    import signal
    try:
        rd, wr = os.pipe()
    except OSError:
        return 'unknown'
    try:
        pid = os.fork()
    except OSError:              # no process / memory available right now: undecided by this back end, not a crash
        os.close(rd)
        os.close(wr)
        return 'unknown'
    if pid == 0:
        try:
            os.close(rd)
            try:
                r = solver.check()
                msg = b's' if r == z3.sat else (b'u' if r == z3.unsat else b'k')
            except BaseException:
                msg = b'k'
            os.write(wr, msg)
        finally:
            os._exit(0)
    os.close(wr)
    out = 'unknown'
    try:
        ready, _, _ = select.select([rd], [], [], seconds)
        if ready:
            b = os.read(rd, 1)
            out = {b's': 'sat', b'u': 'unsat'}.get(b, 'unknown')
        else:
            try:
                os.kill(pid, signal.SIGKILL)
            except OSError:
                pass
    finally:
        os.close(rd)
        try:
            os.waitpid(pid, 0)
        except OSError:
            pass
    return out
