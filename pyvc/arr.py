"""Symbolic numpy arrays: pointwise-lambda contents, storage tokens, views."""
import z3
from fractions import Fraction
from .sym import (Unsupported, SymRaise, is_sym, to_z3, to_real, to_int, to_bool, mk_and, mk_or,
                  mk_ite, mk_eq, mk_cmp, mk_add, mk_sub, mk_mul, mk_floordiv, mk_mod, mk_not, same_term)


def _key(t):
    if is_sym(t):
        return ('z', t.get_id())
    return ('c', t)


def memo(fn):
    cache = {}

    def g(idx):
        k = tuple(_key(t) for t in idx)
        if k not in cache:
            cache[k] = fn(idx)
        return cache[k]
    return g


class ArrData(object):
    __slots__ = ('shape', 'fn', 'dtype', 'version')

    def __init__(self, shape, fn, dtype, version=0):
        self.shape = tuple(shape)
        self.fn = fn
        self.dtype = dtype
        self.version = version


class SArr(object):
    """A numpy array value: a view (fwd/inv index maps) onto a storage token."""

    def __init__(self, token, shape, fwd=None, inv=None, dtype='real'):
        self.token = token
        self.shape = tuple(shape)
        self.fwd = fwd      # view idx -> base idx   (None = identity)
        self.inv = inv      # base idx -> (cond, view idx)  (None = identity)
        self.dtype = dtype

    @property
    def ndim(self):
        return len(self.shape)

    def is_whole(self):
        return self.fwd is None

    def elem(self, st, idx):
        d = st.store[self.token]
        return d.fn(self.fwd(tuple(idx)) if self.fwd else tuple(idx))

    def snapshot(self, st):
        """A closure giving the *current* contents (unaffected by later writes)."""
        f = st.store[self.token].fn
        fwd = self.fwd
        if fwd is None:
            return f
        return lambda idx: f(fwd(tuple(idx)))

    def __repr__(self):
        return 'SArr(tok=%s, shape=%s%s)' % (self.token, self.shape, '' if self.fwd is None else ', view')


class SMasked(object):
    """`a[mask]` for a boolean mask: values remembered per *unmasked* index."""

    def __init__(self, mask, maskfn, fn, shape, dtype='real'):
        self.mask = mask        # the SArr used as mask (identity matters)
        self.maskfn = maskfn    # snapshot of the mask contents
        self.fn = fn            # idx -> term (value at the unmasked position)
        self.shape = shape      # shape of the underlying array
        self.dtype = dtype


def coerce_dtype(v, dtype):
    if dtype == 'real':
        return to_real(v)
    if dtype == 'int':
        return to_int(v) if is_sym(v) or isinstance(v, (int, bool)) else v
    if dtype == 'bool':
        return v if isinstance(v, bool) else to_bool(v)
    return v


def store_write(st, arr, valfn, condfn=None):
    """Write valfn(view idx) into the positions of view `arr` (where condfn holds)."""
    if arr.token in getattr(st, 'readonly', ()):
        raise SymRaise('ValueError', 'assignment destination is read-only')
    d = st.store[arr.token]
    old = d.fn
    inv = arr.inv
    dtype = d.dtype

    def newfn(b):
        if inv is None:
            c, vi = True, b
        else:
            c, vi = inv(b)
        if c is False:
            return old(b)
        if condfn is not None:
            c = mk_and(c, condfn(vi))
            if c is False:
                return old(b)
        nv = coerce_dtype(valfn(vi), dtype)
        if c is True:
            return nv
        ov = old(b)
        if dtype == 'real':
            ov = to_real(ov)
        return mk_ite(c, nv, ov)
    st.store[arr.token] = ArrData(d.shape, memo(newfn), dtype, d.version + 1)


def list_to_fn(items):
    """Python list of scalars -> pointwise function of a (possibly symbolic) index."""
    def fn(idx):
        i = idx[0]
        if not is_sym(i):
            return items[i]
        out = items[-1]
        for j in range(len(items) - 2, -1, -1):
            out = mk_ite(i == j, items[j], out)
        return out
    return fn


def flat_index(idx, shape):
    """Row-major flat index; all dims except the first must be concrete."""
    f = 0
    for d, i in enumerate(idx):
        stride = 1
        for s in shape[d + 1:]:
            if is_sym(s):
                raise Unsupported('reshape with symbolic inner dimension')
            stride *= s
        f = mk_add(f, mk_mul(i, stride))
    return f


def unflatten(f, shape):
    """Inverse of flat_index for a shape whose non-leading dims are concrete."""
    out = []
    rem = f
    for d in range(len(shape)):
        stride = 1
        for s in shape[d + 1:]:
            if is_sym(s):
                raise Unsupported('reshape with symbolic inner dimension')
            stride *= s
        if d == len(shape) - 1:
            out.append(rem)
        elif stride == 1:
            # all remaining dims are 1
            out.append(rem)
            rem = 0
        else:
            out.append(mk_floordiv(rem, stride))
            rem = mk_mod(rem, stride)
    return tuple(out)


def shape_size(shape):
    n = 1
    for s in shape:
        n = mk_mul(n, s)
    return n


def simp(t):
    return z3.simplify(t) if is_sym(t) else t
