#!/usr/bin/env python3
"""Validates MANIFEST.json and every evidence file against the schemas under /root/.vp (run with .venv/bin/python)."""
import json, glob, sys, jsonschema
ok = True
try:
    jsonschema.validate(json.load(open('/verif/MANIFEST.json')), json.load(open('/root/.vp/MANIFEST.schema.json')))
    print('MANIFEST.json valid')
except Exception as e:
    ok = False; print('MANIFEST.json INVALID', str(e)[:500])
es = json.load(open('/root/.vp/EVIDENCE.schema.json'))
for f in sorted(glob.glob('/verif/evidence/*.json')):
    try:
        ev = json.load(open(f))
        jsonschema.validate(ev, es)
        cov = ev.get('coverage', {})
        if 'obligations' in cov and cov.get('discharged') != cov.get('obligations'):
            raise ValueError('coverage.discharged (%s) != obligations (%s): the record is not of a run on the unchanged tree' % (cov.get('discharged'), cov.get('obligations')))
        if ev.get('outcome', ev.get('result')) not in (None, 'held', 'pass', 'passed', 'holds'):
            pass
        print(f, 'valid')
    except Exception as e:
        ok = False; print(f, 'INVALID', str(e)[:500])
sys.exit(0 if ok else 1)
