#!/usr/bin/env python3
"""Rewrites the seeded-changes table of DESIGN.md section 11 from seeded/RESULTS.tsv and the meta.json files."""
import json, collections, re, os
V = os.path.dirname(os.path.dirname(os.path.abspath(__file__)))
rows = collections.OrderedDict()
for l in open(os.path.join(V, 'seeded/RESULTS.tsv')):
    sid, prop, rc, nv, first = l.rstrip('\n').split('\t')
    rows.setdefault(sid, []).append((prop, rc, first))
out = []
for sid, rs in rows.items():
    m = json.load(open(os.path.join(V, 'seeded', sid, 'meta.json')))
    summ = (m.get('summary') or '').replace('|', '/').replace('\n', ' ')[:170]
    needs = m.get('needs') or ''
    if isinstance(needs, list):
        needs = '; '.join(needs)
    needs = needs.replace('|', '/').replace('\n', ' ')[:140]
    caught = ', '.join('%s (exit %s)' % (p, rc) for p, rc, _ in rs)
    first = rs[0][2].replace('failing obligation(s):', '').replace('failing obligation:', '').strip().replace('|', '/')[:150]
    out.append('| `%s` | %s — needs: %s | %s | `%s` |' % (sid, summ, needs, caught, first))
p = os.path.join(V, 'DESIGN.md')
s = open(p).read()
hdr = '| seed | change — what it needs to manifest | checks run (exit) | first failing obligation |\n|------|-------------------------------------|-------------------|--------------------------|\n'
a = s.index(hdr) + len(hdr)
b = s.index('\n\n', a)
s = s[:a] + '\n'.join(out) + s[b:]
own = sum(1 for sid, rs in rows.items() if rs and rs[0][1] == '1')
s = re.sub(r'\*\*All \d+ are caught by the check of the property they were written against', '**All %d are caught by the check of the property they were written against' % own if own == len(rows) else '**%d of %d are caught by the check of the property they were written against' % (own, len(rows)), s)
open(p, 'w').write(s)
print(len(rows), 'seeds,', own, 'caught by their own property check')
