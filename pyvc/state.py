"""Execution state of one symbolic path, and the path explorer."""
import z3
import time
from .sym import (Unsupported, Infeasible, is_sym, to_bool, PI_FACTS, SOpt, SRef, SEnumSym)
from .arr import ArrData, SArr, memo

FEAS_TIMEOUT_MS = 3000


_SYMS = {}


def _symbols(t):
    """Names of the uninterpreted constants / functions occurring in a z3 term (cached per term id)."""
    if isinstance(t, bool):
        return frozenset()
    k = t.get_id()
    r = _SYMS.get(k)
    if r is not None:
        return r
    out = set()
    seen = set()
    todo = [t]
    while todo:
        x = todo.pop()
        i = x.get_id()
        if i in seen:
            continue
        seen.add(i)
        if z3.is_quantifier(x):
            todo.append(x.body())
            continue
        if z3.is_app(x):
            d = x.decl()
            if d.kind() == z3.Z3_OP_UNINTERPRETED:
                out.add(d.name())
            todo.extend(x.children())
    r = frozenset(out)
    if len(_SYMS) > 200000:
        _SYMS.clear()
    _SYMS[k] = (t, r)[1]
    _KEEP.append(t)
    return r


_KEEP = []     # keeps cached terms alive so that z3 ids are not reused

def cone_of_influence(constraints, goal):
    """The constraints connected to `goal` through shared uninterpreted symbols (transitively).  The remaining
    constraints share no symbol with these; as long as they are satisfiable on their own (the path is feasible)
    dropping them changes neither validity nor satisfiability of the query."""
    cons = [(c, _symbols(c)) for c in constraints if not isinstance(c, bool)]
    cone = set(_symbols(goal)) if not isinstance(goal, bool) else set()
    picked = [False] * len(cons)
    changed = True
    while changed:
        changed = False
        for i, (c, sy) in enumerate(cons):
            if not picked[i] and (sy & cone):
                picked[i] = True
                cone |= sy
                changed = True
    return [c for i, (c, sy) in enumerate(cons) if picked[i]]


OPAQUE_PREDICATES = ('np_any', 'allclose')
_ABS = {}


def _abstract(t):
    """Replace applications of axiom-free uninterpreted predicates (np.any over an array, np.allclose) by Boolean
    atoms named after the application term.  Used for path-feasibility questions only: it forgets congruence
    (equal arguments => equal value), so it can only make more paths look feasible; a path whose full assumptions
    turn out unsatisfiable is discarded before any obligation is generated."""
    if isinstance(t, bool):
        return t
    k = t.get_id()
    if k in _ABS:
        return _ABS[k]
    subs = []
    seen = set()
    todo = [t]
    while todo:
        x = todo.pop()
        i = x.get_id()
        if i in seen:
            continue
        seen.add(i)
        if z3.is_quantifier(x):
            continue
        if z3.is_app(x):
            if x.decl().kind() == z3.Z3_OP_UNINTERPRETED and x.decl().name() in OPAQUE_PREDICATES:
                subs.append((x, z3.Bool('atom!%d' % i)))
                continue
            todo.extend(x.children())
    r = z3.substitute(t, *subs) if subs else t
    _ABS[k] = r
    _KEEP.append(t)
    _KEEP.append(r)
    return r


class SObj(object):
    """Heap object of a repo class (fields live in State.heap[oid])."""
    __slots__ = ('oid', 'cls', 'pre')

    def __init__(self, oid, cls, pre=False):
        self.oid = oid
        self.cls = cls
        self.pre = pre     # existed in the pre-state (built by the case builder)

    def __repr__(self):
        return '<%s #%d>' % (getattr(self.cls, 'name', self.cls), self.oid)


class Shared(object):
    """State shared by all runs of one exploration (decision tree, counters)."""

    def __init__(self):
        self.worklist = [[]]      # decision prefixes still to run
        self.feas_checks = 0
        self.feas_time = 0.0
        self.paths = 0


class State(object):
    def __init__(self, shared, prefix, pc=None, di=0, facts=None, tag=''):
        self.shared = shared
        self.prefix = prefix          # list of [choice(bool), forced(bool)]
        self.di = di                  # next decision index
        self.pc = pc if pc is not None else []
        self.facts = facts if facts is not None else list(PI_FACTS)
        self.fact_ids = set()
        self.store = {}
        self.heap = {}
        self.next_tok = 1
        self.next_oid = 1
        self.fresh_n = 0
        self.tag = tag                # distinguishes body run from spec run in fresh names
        self.call_obligations = []    # (name, pc snapshot, goal) for callee preconditions
        self.events = []              # ghost trace (e.g. external calls) for call-order obligations
        self.files = {}
        self.ext_calls = []           # (kind, input snapshot, shape) of uninterpreted external calls, in order
        self.in_build = True

    # ---------------------------------------------------------------- facts
    def add_fact(self, f):
        if isinstance(f, bool):
            if not f:
                raise Infeasible()
            return
        i = f.get_id()
        if i in self.fact_ids:
            return
        self.fact_ids.add(i)
        self.facts.append(f)

    def assume(self, c):
        """Builder / spec assumption (precondition)."""
        if isinstance(c, bool):
            if not c:
                raise Infeasible()
            return
        self.pc.append(to_bool(c))

    # ---------------------------------------------------------------- allocation
    def new_token(self, shape, fn, dtype='real'):
        t = self.next_tok
        self.next_tok += 1
        self.store[t] = ArrData(shape, fn, dtype)
        return t

    def new_array(self, shape, fn, dtype='real'):
        return SArr(self.new_token(shape, memo(fn), dtype), shape, dtype=dtype)

    def new_obj(self, cls, **fields):
        o = SObj(self.next_oid, cls, pre=self.in_build)
        self.next_oid += 1
        self.heap[o.oid] = dict(fields)
        return o

    def fresh_name(self, base):
        self.fresh_n += 1
        return '%s!%s%d' % (base, self.tag, self.fresh_n)

    # ---------------------------------------------------------------- decisions
    def feasible(self, extra):
        """Is pc /\\ facts /\\ extra satisfiable?  Only the constraints in the cone of influence of `extra`
        (connected to it through shared symbols) are sent to the solver: the rest shares no symbol with them and
        is satisfiable on its own (the path so far is feasible), so the answer is unchanged."""
        s = z3.Solver()
        s.set('timeout', FEAS_TIMEOUT_MS)
        extra = _abstract(extra)
        cons = []
        for c in list(self.facts) + list(self.pc):
            c = _abstract(c)
            cons.append((c, _symbols(c)))
        cone = set(_symbols(extra))
        picked = [False] * len(cons)
        changed = True
        while changed:
            changed = False
            for i, (c, sy) in enumerate(cons):
                if not picked[i] and (sy & cone):
                    picked[i] = True
                    cone |= sy
                    changed = True
        for i, (c, sy) in enumerate(cons):
            if picked[i]:
                s.add(c)
        s.add(extra)
        t0 = time.time()
        from .sym import check_deadline
        r = check_deadline(s, FEAS_TIMEOUT_MS / 1000.0 + 2.0)
        self.shared.feas_checks += 1
        self.shared.feas_time += time.time() - t0
        return r != z3.unsat

    def decide(self, c):
        if isinstance(c, bool):
            return c
        c = z3.simplify(to_bool(c))
        if z3.is_true(c):
            return True
        if z3.is_false(c):
            return False
        if self.di < len(self.prefix):
            choice = self.prefix[self.di][0]
            self.di += 1
            self.pc.append(c if choice else z3.Not(c))
            return choice
        can_t = self.feasible(c)
        can_f = self.feasible(z3.Not(c))
        if can_t and can_f:
            self.shared.worklist.append([list(x) for x in self.prefix] + [[False, False]])
            self.prefix.append([True, False])
            self.di += 1
            self.pc.append(c)
            return True
        if can_t:
            self.prefix.append([True, True])
            self.di += 1
            self.pc.append(c)
            return True
        if can_f:
            self.prefix.append([False, True])
            self.di += 1
            self.pc.append(z3.Not(c))
            return False
        raise Infeasible()
