#!/bin/sh
# Hand-written mutants of PRISM.cost run on a scratch copy of /repo (REPO=<copy>), removed afterwards.
# Expected: the four real mutants exit 1 (VIOLATION), the algebraically equal reordering exits 2 (undecided), never 1.
export PYVC_EVIDENCE_DIR=${PYVC_EVIDENCE_DIR:-/tmp/pyvc_evidence_scratch}   # runs on modified trees never overwrite /verif/evidence
set -u
W=$(mktemp -d /tmp/handmut.XXXXXX); cp -r /repo "$W/repo"; rm -rf "$W/repo/.git" "$W/repo/build"
F=pyPRISM/core/PRISM.py
run() { # name  expected  sed-expression
  cp /repo/$F "$W/repo/$F"; sed -i "$3" "$W/repo/$F"
  if cmp -s /repo/$F "$W/repo/$F"; then echo "$1: pattern did not match"; return; fi
  (cd /verif && PYVC_SOLVER_TIMEOUT_MS=4000 REPO="$W/repo" ./check C01 --only PRISM.cost >"$W/log" 2>&1); rc=$?
  echo "$1: exit=$rc (expected $2)  $(tail -1 $W/log | cut -c1-150)"
}
run pair-vs-site-density 1 's/self.totalCorr \/= self.sys.density.pair/self.totalCorr \/= self.sys.density.site/'
run dropped-np-copy 1 's/np.copy(x.reshape((-1,self.sys.rank,self.sys.rank)))/x.reshape((-1,self.sys.rank,self.sys.rank))/'
run gammaout-sign 1 's/self.GammaOut  = self.totalCorr - self.directCorr/self.GammaOut  = self.directCorr - self.totalCorr/'
run closure-fed-diagonal-gamma 1 's/closure.calculate(self.sys.domain.r,self.GammaIn\[t1,t2\])/closure.calculate(self.sys.domain.r,self.GammaIn[t1,t1])/'
run harmless-commuting-product 2 's/self.totalCorr  = self.IOC.dot(self.OC).dot(self.omega)/self.totalCorr  = self.OC.dot(self.IOC).dot(self.omega)/'
rm -rf "$W"
