#!/bin/sh
# Re-runs every claimed quick check on the (clean) /repo tree so that /verif/evidence holds records of the unchanged tree,
# then validates MANIFEST and evidence.  Run before every commit.
[ -z "$(git -C /repo status --porcelain --untracked-files=no)" ] || { echo "/repo not clean"; exit 3; }
cd /verif
rc=0
for p in C01 C02 C03 C04 C05 C06 C07 C08 C09 C10 C11 C12 C13 C14 C15 C16 C17; do
  ./check $p > /tmp/refresh_$p.log 2>&1; r=$?
  echo "$p exit=$r $(tail -1 /tmp/refresh_$p.log | cut -c1-150)"
  [ $r -eq 0 ] || rc=1
done
python3 tools/gen_manifest.py > /dev/null
.venv/bin/python tools/validate.py 2>&1 | grep -v " valid$"
exit $rc
