"""AST interpreter over symbolic values (the symbolic executor of pyvc).

Every evaluation routine is a Python generator so that interpreted
generator functions (`yield`) suspend and resume with Python's lazy
semantics.  Symbolic branches ask State.decide(); paths are explored by
re-execution under recorded decision prefixes.
"""
import ast
import copy as _copy
import os
import z3
from fractions import Fraction
from .sym import *
from .arr import *
from .state import State, SObj


class _Return(Exception):
    def __init__(self, v):
        self.v = v


class _Break(Exception):
    pass


class _Continue(Exception):
    pass


class _End(object):
    def __repr__(self):
        return 'END'


END = _End()


class YieldEvent(object):
    __slots__ = ('value',)

    def __init__(self, v):
        self.value = v


# ---------------------------------------------------------------------------
# static program entities

class SModule(object):
    """External (non-repo) module: attribute access yields SBuiltin references."""

    def __init__(self, name):
        self.name = name

    def __repr__(self):
        return '<module %s>' % self.name


class _TrackedKw(dict):
    """Keyword arguments of a modelled library call; remembers which ones the model read."""

    def __init__(self, d):
        dict.__init__(self, d)
        self._read = set()

    def __getitem__(self, k):
        self._read.add(k)
        return dict.__getitem__(self, k)

    def get(self, k, default=None):
        self._read.add(k)
        return dict.get(self, k, default)

    def pop(self, k, *default):
        self._read.add(k)
        return dict.pop(self, k, *default)

    def __contains__(self, k):
        self._read.add(k)
        return dict.__contains__(self, k)

    def items(self):
        self._read.update(dict.keys(self))
        return dict.items(self)

    def keys(self):
        self._read.update(dict.keys(self))
        return dict.keys(self)

    def values(self):
        self._read.update(dict.keys(self))
        return dict.values(self)

    def __iter__(self):
        self._read.update(dict.keys(self))
        return dict.__iter__(self)

    def __bool__(self):
        return dict.__len__(self) > 0

    def unread(self):
        return set(dict.keys(self)) - self._read


class SymKey(object):
    """A dictionary key with symbolic parts (e.g. a cache keyed by an array's shape).  All numeric leaves hash alike, so
    every key of the same skeleton lands in the same bucket and *equality* decides -- by a case split of the running
    path (`interp.truth`) on the conjunction of the leaf equalities.  Python's dict calls __eq__ on hash-equal keys in a
    deterministic order, so re-execution along a decision prefix takes the same decisions."""
    __slots__ = ('key', 'ip', '_skel')

    def __init__(self, key, ip):
        self.key = key
        self.ip = ip
        self._skel = SymKey.skeleton(key)

    @staticmethod
    def skeleton(k):
        if isinstance(k, tuple):
            return tuple(SymKey.skeleton(x) for x in k)
        if is_sym(k) or (is_num(k) and not isinstance(k, bool)):
            return '#'
        return k

    @staticmethod
    def symbolic(k):
        if isinstance(k, tuple):
            return any(SymKey.symbolic(x) for x in k)
        return is_sym(k)

    def __hash__(self):
        return hash(self._skel)

    def __eq__(self, other):
        ok = other.key if isinstance(other, SymKey) else other
        if SymKey.skeleton(ok) != self._skel:
            return False
        conds = []

        def walk(a, b):
            if isinstance(a, tuple):
                for x, y in zip(a, b):
                    walk(x, y)
            elif is_sym(a) or is_sym(b) or (is_num(a) and not isinstance(a, bool)):
                conds.append(mk_eq(a, b))
        walk(self.key, ok)
        return bool(self.ip.truth(mk_and(*conds))) if conds else True

    def __repr__(self):
        return 'SymKey(%r)' % (self.key,)


class SDType(object):
    """`a.dtype` of a numpy array: float64 / int64 / bool are the only element types the array model has."""
    _INFO = {'real': ('<f8', 'f', 'float64', 8), 'int': ('<i8', 'i', 'int64', 8), 'bool': ('|b1', 'b', 'bool', 1)}

    def __init__(self, kind):
        self.kind = kind

    def __eq__(self, other):
        return isinstance(other, SDType) and other.kind == self.kind

    def __hash__(self):
        return hash(('SDType', self.kind))

    def __repr__(self):
        return 'dtype(%s)' % SDType._INFO[self.kind][2]


class SCtxFactory(object):
    """A generator function decorated with contextlib.contextmanager."""

    def __init__(self, func):
        self.func = func


class SGenCtx(object):
    """The context manager obtained by calling such a function."""

    def __init__(self, gen):
        self.gen = gen


class SBroken(object):
    """A callable whose definition uses something outside the subset (an unknown decorator): refused when called."""

    def __init__(self, why):
        self.why = why


def _dotted(node):
    if isinstance(node, ast.Name):
        return node.id
    if isinstance(node, ast.Attribute):
        b = _dotted(node.value)
        return None if b is None else b + '.' + node.attr
    return None


class SPartial(object):
    """functools.partial(f, *args, **kw)."""

    def __init__(self, func, args, kw):
        self.func, self.args, self.kw = func, args, kw


class SFlags(object):
    """`a.flags` of a numpy array (only `.writeable`)."""

    def __init__(self, arr):
        self.arr = arr


class SBuiltin(object):
    def __init__(self, name, bound=None):
        self.name = name
        self.bound = bound

    def __repr__(self):
        return '<builtin %s>' % self.name


class SClass(object):
    def __init__(self, name, module, node, env):
        self.name = name
        self.module = module       # RepoModule
        self.node = node
        self.env = env
        self.bases = []            # SClass or SBuiltin
        self.attrs = {}            # name -> FunctionDef | value
        self.props = {}            # name -> [getter FunctionDef, setter FunctionDef]
        self.is_enum = False

    def mro(self):
        out = [self]
        for b in self.bases:
            if isinstance(b, SClass):
                for c in b.mro():
                    if c not in out:
                        out.append(c)
        return out

    def qual(self):
        return self.module.relpath + '::' + self.name

    def __repr__(self):
        return '<class %s>' % self.name


class SFunc(object):
    def __init__(self, node, module, env, cls=None, name=None, is_spec=False):
        self.node = node
        self.module = module
        self.env = env             # defining environment
        self.cls = cls
        self.name = name or getattr(node, 'name', '<lambda>')
        self.is_spec = is_spec

    def qual(self):
        if self.cls is not None:
            return '%s::%s.%s' % (self.module.relpath, self.cls.name, self.name)
        return '%s::%s' % (self.module.relpath, self.name)

    def __repr__(self):
        return '<function %s>' % self.name


class SBound(object):
    def __init__(self, func, obj):
        self.func = func
        self.obj = obj


class SSuper(object):
    def __init__(self, cls, obj):
        self.cls = cls
        self.obj = obj


class SExcClass(object):
    def __init__(self, name):
        self.name = name

    def __repr__(self):
        return '<exc class %s>' % self.name


class SExcInst(object):
    def __init__(self, name, args=()):
        self.name = name
        self.args = args


class SGen(object):
    """An interpreted generator object (lazy)."""

    def __init__(self, pygen):
        self.pygen = pygen
        self.done = False


class SPoly(object):
    """Result of np.polyfit(x, y, 2) / np.poly1d: only evaluation at 0 is modelled."""

    def __init__(self, xs, ys):
        self.xs = xs
        self.ys = ys


class SCtx(object):
    """Opaque context manager (np.errstate)."""


class Env(object):
    def __init__(self, parent=None, module=None):
        self.vars = {}
        self.parent = parent
        self.module = module if module is not None else (parent.module if parent else None)

    def lookup(self, name):
        e = self
        while e is not None:
            if name in e.vars:
                return e.vars[name]
            e = e.parent
        raise KeyError(name)


class RepoModule(object):
    def __init__(self, dotted, path, relpath, tree, src):
        self.dotted = dotted
        self.path = path
        self.relpath = relpath
        self.tree = tree
        self.src = src
        self.env = None
        self.loaded = False


BUILTIN_EXC = set(EXC_BASES)
EXTERNAL_MODULES = ('pyvc', 'numpy', 'scipy', 'warnings', 'copy', 'string', 'itertools', 'functools', 'contextlib', 'operator', 'math', 'pint',
                    'enum', '__future__', 'os', 'pytest')


class Program(object):
    """Loader for the repo's modules (re-read from disk on every run)."""

    def __init__(self, repo):
        self.repo = repo
        self.modules = {}
        self.extra_roots = {}     # dotted prefix -> directory (for contract files)

    def own_roots(self):
        if getattr(self, '_own', None) is None:
            self._own = set(self.extra_roots)
            for e in os.listdir(self.repo):
                if os.path.isfile(os.path.join(self.repo, e, '__init__.py')):
                    self._own.add(e)
                elif e.endswith('.py'):
                    self._own.add(e[:-3])
        return self._own

    def find(self, dotted):
        parts = dotted.split('.')
        for root_name, root_dir in list(self.extra_roots.items()):
            if parts[0] == root_name:
                base = os.path.join(root_dir, *parts[1:])
                for cand, rel in ((base + '.py', '/'.join(parts[1:]) + '.py'),):
                    if os.path.isfile(cand):
                        return cand, root_name + ':' + rel
        base = os.path.join(self.repo, *parts)
        if os.path.isfile(base + '.py'):
            return base + '.py', '/'.join(parts) + '.py'
        if os.path.isfile(os.path.join(base, '__init__.py')):
            return os.path.join(base, '__init__.py'), '/'.join(parts) + '/__init__.py'
        return None, None

    def load(self, dotted):
        if dotted in self.modules:
            return self.modules[dotted]
        path, rel = self.find(dotted)
        if path is None:
            return None
        src = open(path).read()
        tree = ast.parse(src, path)
        m = RepoModule(dotted, path, rel, tree, src)
        self.modules[dotted] = m
        return m


# ---------------------------------------------------------------------------

def _pure_message_expr(e):
    """Names, attributes, literals, subscripts, string concatenation and `.format(...)`: evaluating it has no effect."""
    for sub in ast.walk(e):
        if isinstance(sub, ast.Call):
            if not (isinstance(sub.func, ast.Attribute) and sub.func.attr == 'format'):
                return False
        elif not isinstance(sub, (ast.Name, ast.Attribute, ast.Constant, ast.Subscript, ast.Tuple, ast.BinOp, ast.Add, ast.Mod,
                                  ast.Load, ast.JoinedStr, ast.FormattedValue, ast.keyword, ast.Index if hasattr(ast, 'Index') else ast.Load)):
            return False
    return True


def _warn_only_function(fnode):
    """A helper whose whole body is `<build a message in locals>; warnings.warn(msg)` (a docstring is allowed)."""
    cached = getattr(fnode, '_warn_only_fn', None)
    if cached is not None:
        return cached
    ok, has_warn = True, False
    for st in fnode.body:
        if isinstance(st, ast.Expr) and isinstance(st.value, ast.Constant):
            continue
        if isinstance(st, ast.Expr) and isinstance(st.value, ast.Call):
            f = st.value.func
            if isinstance(f, ast.Attribute) and f.attr == 'warn' and isinstance(f.value, ast.Name) and f.value.id == 'warnings' \
                    and all(_pure_message_expr(a) for a in st.value.args) and not st.value.keywords:
                has_warn = True
                continue
            ok = False
        elif isinstance(st, (ast.Assign, ast.AugAssign)):
            tgts = st.targets if isinstance(st, ast.Assign) else [st.target]
            if not all(isinstance(t, ast.Name) for t in tgts) or not _pure_message_expr(st.value):
                ok = False
        else:
            ok = False
    fnode._warn_only_fn = ok and has_warn
    return fnode._warn_only_fn


def _warn_only_if(node, resolve=None):
    """`if c: <build a message in locals>; warnings.warn(msg)` with no else: observable only through the warning.
    `self.helper(<pure message arguments>)` counts as the warning when the helper is itself nothing but that."""
    cached = getattr(node, '_warn_only', None)
    if cached is not None:
        return cached
    ok = not node.orelse
    has_warn = False
    for st in node.body:
        if isinstance(st, ast.Expr) and isinstance(st.value, ast.Call):
            f = st.value.func
            if isinstance(f, ast.Attribute) and f.attr == 'warn' and isinstance(f.value, ast.Name) and f.value.id == 'warnings':
                has_warn = True
                continue
            if isinstance(f, ast.Attribute) and isinstance(f.value, ast.Name) and f.value.id == 'self' and resolve is not None \
                    and all(_pure_message_expr(a) for a in st.value.args) and all(_pure_message_expr(k.value) for k in st.value.keywords):
                fn = resolve(f.attr)
                if fn is not None and _warn_only_function(fn):
                    has_warn = True
                    continue
            ok = False
        elif isinstance(st, (ast.Assign, ast.AugAssign)):
            tgts = st.targets if isinstance(st, ast.Assign) else [st.target]
            pure_reduction = (isinstance(st, ast.Assign) and isinstance(st.value, ast.Call) and isinstance(st.value.func, ast.Attribute)
                              and isinstance(st.value.func.value, ast.Name) and st.value.func.value.id == 'np'
                              and st.value.func.attr in ('min', 'max', 'abs') and all(isinstance(t, ast.Name) for t in tgts))
            if pure_reduction:
                continue         # e.g. `val = np.min(H)` feeding the message
            if not all(isinstance(t, ast.Name) and (t.id.startswith('warn') or t.id.endswith('text') or t.id.endswith('str')) for t in tgts):
                ok = False
            # right-hand side: string literal / .format(...) on a literal or on such a name
            for sub in ast.walk(st.value):
                if isinstance(sub, ast.Call) and not (isinstance(sub.func, ast.Attribute) and sub.func.attr == 'format'):
                    ok = False
        else:
            ok = False
    node._warn_only = ok and has_warn
    return node._warn_only


def run_to_completion(gen):
    """Drive an evaluation generator that must not yield (non-generator context)."""
    try:
        while True:
            ev = next(gen)
            raise Unsupported('yield outside of a generator context: %r' % (ev,))
    except StopIteration as s:
        return s.value


class Interp(object):
    def __init__(self, program, st, registry=None, modular=True):
        self.prog = program
        self.st = st
        self.registry = registry or {}    # qualified repo name -> SFunc (spec)
        self.modular = modular
        self.term_mode = 0
        self.depth = 0
        self.no_spec_for = set()          # quals for which the body must be used (function under proof)
        self.used_specs = set()
        self.inlined = set()
        self.spec_depth = 0
        self.models = {}
        from . import models
        models.install(self)
        self.reset_module_state()

    # ------------------------------------------------------------------ modules
    def module_env(self, m):
        if m.env is not None:
            return m.env
        env = Env(module=m)
        m.env = env
        for node in m.tree.body:
            self.exec_toplevel(node, env, m)
        m.loaded = True
        # module-level mutable containers are process state: every run (path, side) starts from the freshly imported module
        m.pristine = {}
        m.pristine_cls = []
        for k, v in env.vars.items():
            if isinstance(v, (dict, list, set)):
                try:
                    m.pristine[k] = _copy.deepcopy(v)
                except Exception:       # noqa
                    pass
            if isinstance(v, SClass) and v.module is m:
                for ak, av in v.attrs.items():
                    if isinstance(av, (dict, list, set)):
                        try:
                            m.pristine_cls.append((v, ak, _copy.deepcopy(av)))
                        except Exception:       # noqa
                            pass
        return env

    def reset_module_state(self):
        for m in self.prog.modules.values():
            if m.env is not None and getattr(m, 'pristine', None):
                for k, v in m.pristine.items():
                    m.env.vars[k] = _copy.deepcopy(v)
            for cls, ak, av in getattr(m, 'pristine_cls', ()):
                cls.attrs[ak] = _copy.deepcopy(av)

    def import_name(self, dotted):
        root = dotted.split('.')[0]
        if root in EXTERNAL_MODULES:
            return SModule(dotted)
        m = self.prog.load(dotted)
        if m is None:
            if root in self.prog.own_roots():
                raise Unsupported('cannot import %s' % dotted)
            return SModule(dotted)       # not part of the library: an external module (calls into it need a model)
        self.module_env(m)
        return m

    def exec_toplevel(self, node, env, m):
        if isinstance(node, ast.Import):
            for a in node.names:
                root = a.name.split('.')[0]
                if root in EXTERNAL_MODULES:
                    env.vars[a.asname or root] = SModule(a.name if a.asname else root)
                else:
                    mod = self.import_name(a.name)
                    env.vars[a.asname or root] = mod
        elif isinstance(node, ast.ImportFrom):
            modname = node.module or ''
            root = modname.split('.')[0]
            for a in node.names:
                if root in EXTERNAL_MODULES:
                    if a.name == '*':
                        continue
                    env.vars[a.asname or a.name] = self.external_attr(modname, a.name)
                else:
                    mod = self.import_name(modname)
                    if a.name == '*':
                        for k, v in mod.env.vars.items():
                            env.vars.setdefault(k, v)
                        continue
                    try:
                        env.vars[a.asname or a.name] = mod.env.vars[a.name]
                    except KeyError:
                        sub = self.prog.load(modname + '.' + a.name)
                        if sub is None:
                            raise Unsupported('cannot import %s from %s' % (a.name, modname))
                        self.module_env(sub)
                        env.vars[a.asname or a.name] = sub
        elif isinstance(node, ast.ClassDef):
            env.vars[node.name] = self.make_class(node, env, m)
        elif isinstance(node, ast.FunctionDef):
            env.vars[node.name] = self.decorated(node, SFunc(node, m, env))
        elif isinstance(node, ast.Assign):
            try:
                v = run_to_completion(self.ev(node.value, env))
            except (Unsupported, SymRaise):
                return
            for t in node.targets:
                if isinstance(t, ast.Name):
                    env.vars[t.id] = v
        elif isinstance(node, ast.Try):
            # `try: from enum import Enum ... else: parent = Enum` in Space.py
            for n in node.body + node.orelse:
                try:
                    self.exec_toplevel(n, env, m)
                except Unsupported:
                    pass
        elif isinstance(node, ast.Expr):
            pass
        elif isinstance(node, ast.If):
            pass   # `if __name__ == '__main__':`
        else:
            pass

    def external_attr(self, modname, name):
        full = modname + '.' + name
        if full in ('enum.Enum',):
            return SBuiltin('enum.Enum')
        if full == 'copy.deepcopy':
            return SBuiltin('copy.deepcopy')
        if full == 'itertools.product':
            return SBuiltin('itertools.product')
        return SBuiltin(full)

    def decorated(self, node, f):
        """Decorators of plain functions are never ignored: contextlib.contextmanager is modelled, anything else makes
        the function unusable (refused when it is called)."""
        mod = f.module if isinstance(f, SFunc) else None
        if mod is not None and ':' in (getattr(mod, 'relpath', '') or ''):
            return f                 # sidecar contract files: @contract / @cases / @lemma register the function, they do not wrap it
        for d in reversed(node.decorator_list):
            name = _dotted(d)
            if name in ('contextmanager', 'contextlib.contextmanager') and isinstance(f, SFunc):
                f = SCtxFactory(f)
            else:
                f = SBroken('decorator @%s on %s' % (name or ast.dump(d)[:40], node.name))
        return f

    def make_class(self, node, env, m):
        c = SClass(node.name, m, node, env)
        for b in node.bases:
            bv = run_to_completion(self.ev(b, env))
            if isinstance(bv, SBuiltin) and bv.name == 'enum.Enum':
                c.is_enum = True
            c.bases.append(bv)
        for item in node.body:
            if isinstance(item, ast.FunctionDef):
                decos = item.decorator_list
                if decos and isinstance(decos[0], ast.Name) and decos[0].id == 'property':
                    c.props.setdefault(item.name, [None, None])[0] = SFunc(item, m, env, c, name=item.name + '.getter')
                elif decos and isinstance(decos[0], ast.Attribute) and decos[0].attr == 'setter':
                    c.props.setdefault(item.name, [None, None])[1] = SFunc(item, m, env, c, name=item.name + '.setter')
                elif decos and len(decos) == 1 and isinstance(decos[0], ast.Name) and decos[0].id in ('staticmethod', 'classmethod'):
                    f = SFunc(item, m, env, c)
                    f.binding = decos[0].id
                    c.attrs[item.name] = f
                elif decos:
                    raise Unsupported('decorator on %s.%s' % (node.name, item.name))
                else:
                    c.attrs[item.name] = SFunc(item, m, env, c)   # later definitions override earlier ones
            elif isinstance(item, ast.Assign):
                v = run_to_completion(self.ev(item.value, env))
                for t in item.targets:
                    if isinstance(t, ast.Name):
                        c.attrs[t.id] = v
            elif isinstance(item, (ast.Expr, ast.Pass)):
                pass
            else:
                raise Unsupported('class body statement %s' % type(item).__name__)
        if c.is_enum:
            for k, v in list(c.attrs.items()):
                if not isinstance(v, SFunc):
                    c.attrs[k] = SEnum(c.name, k, v)
        return c

    # ------------------------------------------------------------------ truth / branching
    def truth(self, v):
        if v is None:
            return False
        if isinstance(v, bool):
            return v
        if is_sym(v):
            if self.term_mode:
                raise Unsupported('symbolic branch inside a pointwise term')
            return self.st.decide(to_bool(v))
        if isinstance(v, (int, Fraction)):
            return v != 0
        if isinstance(v, (list, tuple, dict, str, set)):
            return len(v) > 0
        if isinstance(v, SOpt):
            isnone = self.st.decide(v.isnone)
            if isnone:
                return False
            return self.truth(v.val)
        if isinstance(v, (SObj, SFunc, SBound, SClass, SEnum, SRef, SStr)):
            return True
        if isinstance(v, SArr):
            raise Unsupported('truth value of an array')
        raise Unsupported('truth of %r' % (v,))

    def decide(self, c):
        if isinstance(c, bool):
            return c
        if self.term_mode:
            raise Unsupported('symbolic branch inside a pointwise term')
        return self.st.decide(c)

    def raise_(self, name, msg=None):
        raise SymRaise(name, msg)

    def unopt(self, v, what='operand'):
        """Use an optional value where a proper value is needed (None -> TypeError path)."""
        if isinstance(v, SOpt):
            if self.term_mode:
                if is_sym(v.isnone) and self.st.feasible(v.isnone):
                    raise Unsupported('possibly-None value inside a pointwise term')
                if v.isnone is True:
                    raise SymRaise('TypeError', 'NoneType used as ' + what)
                return v.val
            if self.decide(v.isnone):
                raise SymRaise('TypeError', 'NoneType used as ' + what)
            return v.val
        if v is None:
            raise SymRaise('TypeError', 'NoneType used as ' + what)
        return v

    # ------------------------------------------------------------------ statements
    def exec_block(self, stmts, env):
        for s in stmts:
            yield from self.exec_stmt(s, env)

    def exec_stmt(self, node, env):
        t = type(node)
        if t is ast.Expr:
            if isinstance(node.value, ast.Constant):
                return
            yield from self.ev(node.value, env)
        elif t is ast.Assign:
            v = yield from self.ev(node.value, env)
            for tgt in node.targets:
                yield from self.assign(tgt, v, env)
        elif t is ast.AugAssign:
            yield from self.augassign(node, env)
        elif t is ast.Return:
            v = None
            if node.value is not None:
                v = yield from self.ev(node.value, env)
            raise _Return(v)
        elif t is ast.If:
            tst = node.test
            if isinstance(tst, ast.UnaryOp) and isinstance(tst.op, ast.Not):
                tst = tst.operand
            resolve = self._method_resolver(env)
            if isinstance(tst, ast.Name) and _warn_only_if(node, resolve):
                self.lookup(tst.id, env)
                return       # the branch only builds and emits a warning (no-op, DESIGN 2.1): no case split
            c = yield from self.ev(tst, env)
            if is_sym(c) and _warn_only_if(node, resolve):
                return       # `if [not] <test>: <warn>`: test evaluated (it may raise), no case split
            if is_sym(c) and getattr(self, 'quiet_yields', 0) and not node.orelse and \
                    all(isinstance(b, ast.Expr) and isinstance(b.value, ast.Yield) and
                        (b.value.value is None or _pure_message_expr(b.value.value)) for b in node.body):
                return       # `if <symbolic>: yield item` feeding a loop that only warns
            if self.truth(c) != (tst is not node.test):          # `not x` is `not truth(x)`
                yield from self.exec_block(node.body, env)
            else:
                yield from self.exec_block(node.orelse, env)
        elif t is ast.For:
            yield from self.exec_for(node, env)
        elif t is ast.Pass:
            return
        elif t is ast.Assert:
            c = yield from self.ev(node.test, env)
            if not self.truth(c):
                raise SymRaise('AssertionError')
        elif t is ast.Raise:
            if node.exc is None:
                raise Unsupported('bare raise')
            e = yield from self.ev(node.exc, env)
            if isinstance(e, SExcClass):
                raise SymRaise(e.name)
            if isinstance(e, SExcInst):
                raise SymRaise(e.name)
            raise Unsupported('raise of %r' % (e,))
        elif t is ast.Try:
            yield from self.exec_try(node, env)
        elif t is ast.With:
            yield from self.exec_with(node, 0, env)
        elif t is ast.Continue:
            raise _Continue()
        elif t is ast.Break:
            raise _Break()
        elif t is ast.Import or t is ast.ImportFrom:
            self.exec_toplevel(node, env, env.module)
        elif t is ast.FunctionDef:
            env.vars[node.name] = self.decorated(node, SFunc(node, env.module, env))
        elif t is ast.AnnAssign:
            if node.value is not None:
                v = yield from self.ev(node.value, env)
                yield from self.assign(node.target, v, env)
        elif t is ast.Delete:
            for tgt in node.targets:
                if isinstance(tgt, ast.Name):
                    env.vars.pop(tgt.id, None)
                else:
                    raise Unsupported('del of a non-name target')
        elif t is ast.While:
            n = 0
            while True:
                c = yield from self.ev(node.test, env)
                if is_sym(c) or isinstance(c, (SArr, SOpt)):
                    raise Unsupported('while loop with a symbolic condition (needs a loop invariant)')
                if not self.truth(c):
                    break
                n += 1
                if n > 10000:
                    raise Unsupported('while loop did not terminate within 10000 iterations')
                try:
                    yield from self.exec_block(node.body, env)
                except _Break:
                    return
                except _Continue:
                    continue
            yield from self.exec_block(node.orelse, env)
        else:
            raise Unsupported('statement %s' % t.__name__)

    def exec_try(self, node, env):
        if node.finalbody:
            # try/[except]/finally: the finally block runs on every way out
            inner = ast.Try(body=node.body, handlers=node.handlers, orelse=node.orelse, finalbody=[])
            try:
                if node.handlers:
                    yield from self.exec_try(inner, env)
                else:
                    yield from self.exec_block(node.body, env)
            except (SymRaise, _Return, _Break, _Continue):
                yield from self.exec_block(node.finalbody, env)
                raise
            yield from self.exec_block(node.finalbody, env)
            return
        try:
            yield from self.exec_block(node.body, env)
        except SymRaise as e:
            for h in node.handlers:
                if h.type is None:
                    match = True
                else:
                    hv = yield from self.ev(h.type, env)
                    names = [x.name for x in (hv if isinstance(hv, tuple) else (hv,))]
                    match = any(exc_isinstance(e.name, n) for n in names)
                if match:
                    if h.name:
                        env.vars[h.name] = SExcInst(e.name)
                    yield from self.exec_block(h.body, env)
                    return
            raise
        else:
            yield from self.exec_block(node.orelse, env)

    def _method_resolver(self, env):
        def resolve(name, env=env):
            try:
                me = env.lookup('self')
            except KeyError:
                return None
            f = self.find_method(me.cls, name) if isinstance(me, SObj) else None
            return f.node if f is not None else None
        return resolve

    def exec_with(self, node, k, env):
        """`with a as x, b as y: body`: opaque library managers (np.errstate, warnings.catch_warnings) have no effect on
        values; an object of the library with __enter__/__exit__ is run as Python does; anything else is refused."""
        if k == len(node.items):
            yield from self.exec_block(node.body, env)
            return
        item = node.items[k]
        cm = yield from self.ev(item.context_expr, env)
        if isinstance(cm, SCtx):
            if item.optional_vars is not None:
                yield from self.assign(item.optional_vars, None, env)
            yield from self.exec_with(node, k + 1, env)
            return
        if isinstance(cm, SObj) and self.find_method(cm.cls, '__enter__') is not None and self.find_method(cm.cls, '__exit__') is not None:
            v = yield from self.call_function(self.find_method(cm.cls, '__enter__'), [cm], {})
            if item.optional_vars is not None:
                yield from self.assign(item.optional_vars, v, env)
            ex = self.find_method(cm.cls, '__exit__')
            try:
                yield from self.exec_with(node, k + 1, env)
            except SymRaise as e:
                r = yield from self.call_function(ex, [cm, SExcClass(e.name), SExcInst(e.name), None], {})
                if self.truth(r) if r is not None else False:
                    return                   # the manager swallowed the exception
                raise
            except (_Return, _Break, _Continue):
                yield from self.call_function(ex, [cm, None, None, None], {})
                raise
            yield from self.call_function(ex, [cm, None, None, None], {})
            return
        if isinstance(cm, SGenCtx):
            v = yield from self.next_item(cm.gen)
            if v is END:
                raise SymRaise('RuntimeError', "generator didn't yield")
            if item.optional_vars is not None:
                yield from self.assign(item.optional_vars, v, env)
            try:
                yield from self.exec_with(node, k + 1, env)
            except SymRaise as e:
                # the exception is raised inside the generator at its yield; its own try/except/finally decide
                try:
                    ev = cm.gen.pygen.throw(e)
                except StopIteration:
                    cm.gen.done = True
                    return               # swallowed
                except _Return:
                    cm.gen.done = True
                    return
                raise SymRaise('RuntimeError', "generator didn't stop after throw()")
            except (_Return, _Break, _Continue):
                after = yield from self.next_item(cm.gen)
                if after is not END:
                    raise SymRaise('RuntimeError', "generator didn't stop")
                raise
            after = yield from self.next_item(cm.gen)
            if after is not END:
                raise SymRaise('RuntimeError', "generator didn't stop")
            return
        raise Unsupported('with-statement on %r' % (cm,))

    def exec_for(self, node, env):
        it = yield from self.ev(node.iter, env)
        if isinstance(it, SSymRange):
            yield from self.exec_sum_loop(node, env, it)
            return
        loop = self.iterate(it)
        quiet = False
        if isinstance(loop, SGen) and not node.orelse:
            wo = getattr(node, '_warn_only_body', None)
            if wo is None:
                fake = ast.If(test=ast.Constant(True), body=node.body, orelse=[])
                wo = node._warn_only_body = bool(_warn_only_if(fake, self._method_resolver(env)))
            quiet = wo
        while True:
            if quiet:
                # the consumer only emits warnings: whether the generator yields an item under a *symbolic* condition
                # is unobservable, so such conditional yields are not case-split (see the If rule)
                self.quiet_yields = getattr(self, 'quiet_yields', 0) + 1
                try:
                    item = yield from self.next_item(loop)
                finally:
                    self.quiet_yields -= 1
            else:
                item = yield from self.next_item(loop)
            if item is END:
                break
            yield from self.assign(node.target, item, env)
            try:
                yield from self.exec_block(node.body, env)
            except _Break:
                return
            except _Continue:
                continue
        yield from self.exec_block(node.orelse, env)

    # accumulation loops over a symbolic range ------------------------------------------------------------
    def _sum_loop_shape(self, node):
        """`for v in range(..): [local = expr]* ; ACC += expr  | nested loop of the same form` with one accumulator ACC
        that is not read by any right-hand side.  Returns the accumulator target node or None."""
        acc = []

        def scan(body):
            for st in body:
                if isinstance(st, ast.Assign) and all(isinstance(t, ast.Name) for t in st.targets):
                    continue
                if isinstance(st, ast.AugAssign) and isinstance(st.op, ast.Add) and isinstance(st.target, (ast.Name, ast.Attribute)):
                    acc.append(st.target)
                    continue
                if isinstance(st, ast.For) and not st.orelse and isinstance(st.target, ast.Name):
                    if not scan(st.body):
                        return False
                    continue
                if isinstance(st, ast.Expr) and isinstance(st.value, ast.Constant):
                    continue
                return False
            return True
        if node.orelse or not isinstance(node.target, ast.Name) or not scan(node.body) or not acc:
            return None
        key = ast.dump(acc[0])
        if any(ast.dump(a) != key for a in acc):
            return None
        # the accumulator must not be read on a right-hand side
        for n in ast.walk(node):
            if isinstance(n, ast.AugAssign):
                if any(ast.dump(x) == key for x in ast.walk(n.value) if isinstance(x, (ast.Name, ast.Attribute))):
                    return None
            elif isinstance(n, ast.Assign):
                if any(ast.dump(x) == key for x in ast.walk(n.value) if isinstance(x, (ast.Name, ast.Attribute))):
                    return None
        return acc[0]

    def summarise_sum(self, lo, hi, thunk):
        """SUM_{it=lo}^{hi-1} thunk(it) as an uninterpreted sum, matched by ordinal between the code run and the
        contract run; the Comparer proves the matched summands equal at a generic index (and the bounds equal), which
        justifies -- by extensionality of finite sums -- giving matched sums the same result symbol.  Free variables
        of enclosing summarised loops become arguments of the result symbol."""
        st = self.st
        st.sum_ctr = getattr(st, 'sum_ctr', 0) + 1
        k = st.sum_ctr
        itv = z3.Int('it!%d' % k)
        st.loop_vars = getattr(st, 'loop_vars', [])
        free = list(st.loop_vars)
        lo_z, hi_z = to_z3(lo), to_z3(hi)
        # the summand is only ever needed for lo <= it < hi (nothing is said about an empty range)
        st.add_fact(z3.Implies(lo_z < hi_z, z3.And(lo_z <= itv, itv < hi_z)))
        st.loop_vars.append(itv)
        try:
            v = yield from thunk(itv)
        finally:
            st.loop_vars.pop()
        v = self.unopt(v)
        lo_t, hi_t = to_int(lo) if is_sym(lo) else lo, to_int(hi) if is_sym(hi) else hi
        count = simp(mk_sub(hi_t, lo_t))

        def at(term, t):
            return z3.substitute(term, (itv, to_z3(mk_add(lo_t, t)))) if is_sym(term) else term
        R = z3.RealSort()
        Isort = z3.IntSort()
        if isinstance(v, SArr):
            snap = v.snapshot(st)
            shape = tuple(v.shape)
            st.ext_calls.append(('sum', (lambda idx: at(to_real(snap(tuple(idx[:-1]))), idx[-1])), shape + (count,), lo_t))
            F = z3.Function('sum!%d' % k, *([Isort] * (len(shape) + len(free)) + [R]))
            return st.new_array(shape, lambda idx: F(*([to_int(i) if is_sym(i) else z3.IntVal(i) for i in idx] + free)))
        if not (is_num(v) or is_boolish(v)):
            raise Unsupported('sum over a symbolic range of %r' % (v,))
        st.ext_calls.append(('sum', (lambda idx: at(to_real(v), idx[-1])), (count,), lo_t))
        F = z3.Function('sum!%d' % k, *([Isort] * len(free) + [R]))
        return F(*free) if free else F()

    def exec_sum_loop(self, node, env, rng):
        target = self._sum_loop_shape(node)
        if target is None:
            raise Unsupported('loop over a symbolic range that is not a plain accumulation (needs a loop invariant): %r' % (rng,))
        cur = yield from self.ev(target, env)
        cur = self.unopt(cur)
        if isinstance(cur, SArr):
            before = cur.snapshot(self.st)
            shape = tuple(cur.shape)
        elif is_num(cur):
            before = cur
        else:
            raise Unsupported('accumulator of type %r' % (type(cur).__name__,))
        assigned = set(t.id for n in ast.walk(node) for t in (n.targets if isinstance(n, ast.Assign) else ([n.target] if isinstance(n, ast.For) else [])) if isinstance(t, ast.Name))

        def thunk(itv):
            # one generic iteration, started from a zero accumulator: what it leaves there is the summand
            if isinstance(cur, SArr):
                store_write(self.st, cur, lambda vi: 0)
            else:
                yield from self.assign(target, 0, env)
            yield from self.assign(node.target, itv, env)
            yield from self.exec_block(node.body, env)
            d = yield from self.ev(target, env)
            d = self.unopt(d)
            if isinstance(d, SArr):
                return self.copy_array(d)
            return d
        total = yield from self.summarise_sum(rng.lo, rng.hi, thunk)
        if isinstance(cur, SArr):
            ts = total.snapshot(self.st)
            store_write(self.st, cur, lambda vi: mk_add(before(vi), ts(vi)))
        else:
            yield from self.assign(target, mk_add(before, total), env)
        for nm in assigned:
            env.vars.pop(nm, None)       # per-iteration locals have no meaning after a summarised loop

    # iteration protocol over interpreter values --------------------------------
    def iterate(self, it):
        if isinstance(it, SGen):
            return it
        if isinstance(it, (list, tuple, str)):
            return iter(list(it))
        if isinstance(it, dict):
            return iter(list(it.keys()))
        if isinstance(it, (range, set)):
            return iter(list(it))
        if hasattr(it, '__next__'):
            return it
        if isinstance(it, SObj):
            f = self.find_method(it.cls, '__iter__')
            if f is None:
                raise SymRaise('TypeError', 'object is not iterable')
            g = run_to_completion(self.call_function(f, [it], {}))
            return self.iterate(g)
        if isinstance(it, SArr):
            n = it.shape[0]
            if is_sym(n):
                raise Unsupported('iteration over an array of symbolic length')
            return iter([self.arr_index(it, (i,)) for i in range(n)])
        if isinstance(it, SSymRange):
            raise Unsupported('loop over a symbolic range (needs a loop invariant): %r' % (it,))
        raise SymRaise('TypeError', 'object is not iterable: %r' % (it,))

    def next_item(self, loop):
        """Generator: returns the next item, or END when the iterator is exhausted."""
        if isinstance(loop, tuple) and loop[0] == 'call':
            f, obj = loop[1], loop[2]
            raise Unsupported('internal: unresolved iterator')
        if isinstance(loop, SGen):
            if loop.done:
                return END
            try:
                ev = next(loop.pygen)
            except StopIteration:
                loop.done = True
                return END
            except _Return:
                loop.done = True
                return END
            if isinstance(ev, YieldEvent):
                return ev.value
            raise Unsupported('unexpected event from generator')
        try:
            return next(loop)
        except StopIteration:
            return END
        yield  # pragma: no cover (makes this a generator)

    # assignment ------------------------------------------------------------------
    def assign(self, tgt, v, env):
        t = type(tgt)
        if t is ast.Name:
            env.vars[tgt.id] = v
        elif t in (ast.Tuple, ast.List):
            items = yield from self.unpack(v, len(tgt.elts))
            for e, x in zip(tgt.elts, items):
                yield from self.assign(e, x, env)
        elif t is ast.Attribute:
            obj = yield from self.ev(tgt.value, env)
            yield from self.setattr(obj, tgt.attr, v)
        elif t is ast.Subscript:
            obj = yield from self.ev(tgt.value, env)
            key = yield from self.ev_key(tgt.slice, env)
            yield from self.setitem(obj, key, v)
        else:
            raise Unsupported('assignment target %s' % t.__name__)

    def unpack(self, v, n):
        if isinstance(v, (tuple, list)):
            if len(v) != n:
                raise SymRaise('ValueError', 'unpack')
            return list(v)
        loop = self.iterate(v)
        out = []
        while True:
            x = yield from self.next_item(loop)
            if x is END:
                break
            out.append(x)
        if len(out) != n:
            raise SymRaise('ValueError', 'unpack')
        return out

    def augassign(self, node, env):
        tgt = node.target
        op = type(node.op)
        if isinstance(tgt, ast.Name):
            cur = yield from self.ev(tgt, env)
            rhs = yield from self.ev(node.value, env)
            new = yield from self.inplace_op(op, cur, rhs)
            env.vars[tgt.id] = new
        elif isinstance(tgt, ast.Attribute):
            obj = yield from self.ev(tgt.value, env)
            cur = yield from self.getattr(obj, tgt.attr)
            rhs = yield from self.ev(node.value, env)
            new = yield from self.inplace_op(op, cur, rhs)
            yield from self.setattr(obj, tgt.attr, new)
        elif isinstance(tgt, ast.Subscript):
            obj = yield from self.ev(tgt.value, env)
            key = yield from self.ev_key(tgt.slice, env)
            cur = yield from self.getitem(obj, key)
            rhs = yield from self.ev(node.value, env)
            new = yield from self.inplace_op(op, cur, rhs)
            yield from self.setitem(obj, key, new)
        else:
            raise Unsupported('augmented assignment target')

    INPLACE = {ast.Add: '__iadd__', ast.Sub: '__isub__', ast.Mult: '__imul__', ast.Div: '__itruediv__',
               ast.MatMult: '__imatmul__'}
    BINOPS = {ast.Add: '__add__', ast.Sub: '__sub__', ast.Mult: '__mul__', ast.Div: '__truediv__',
              ast.MatMult: '__matmul__'}

    def inplace_op(self, op, cur, rhs):
        if isinstance(cur, SArr):
            rhs = self.unopt(rhs)
            yield from self.arr_inplace(op, cur, rhs)
            return cur
        if isinstance(cur, SObj):
            name = self.INPLACE.get(op)
            f = self.find_method(cur.cls, name) if name else None
            if f is not None:
                r = yield from self.call_function(f, [cur, rhs], {})
                return r
        if isinstance(cur, list) and op is ast.Add:
            cur.extend(rhs)
            return cur
        r = yield from self.binop(op, cur, rhs)
        return r

    # ------------------------------------------------------------------ expressions
    def ev(self, node, env):
        t = type(node)
        if t is ast.Constant:
            v = node.value
            if isinstance(v, float):
                return lit_float(v)
            if isinstance(v, complex):
                raise Unsupported('complex constant')
            return v
        if t is ast.Name:
            return self.lookup(node.id, env)
        if t is ast.Attribute:
            obj = yield from self.ev(node.value, env)
            r = yield from self.getattr(obj, node.attr)
            return r
        if t is ast.Call:
            r = yield from self.ev_call(node, env)
            return r
        if t is ast.BinOp:
            a = yield from self.ev(node.left, env)
            b = yield from self.ev(node.right, env)
            r = yield from self.binop(type(node.op), a, b)
            return r
        if t is ast.UnaryOp:
            a = yield from self.ev(node.operand, env)
            r = yield from self.unop(type(node.op), a)
            return r
        if t is ast.BoolOp:
            r = yield from self.ev_boolop(node, env)
            return r
        if t is ast.Compare:
            r = yield from self.ev_compare(node, env)
            return r
        if t is ast.Subscript:
            obj = yield from self.ev(node.value, env)
            key = yield from self.ev_key(node.slice, env)
            r = yield from self.getitem(obj, key)
            return r
        if t is ast.Tuple:
            out = []
            for e in node.elts:
                x = yield from self.ev(e, env)
                out.append(x)
            return tuple(out)
        if t is ast.List:
            out = []
            for e in node.elts:
                x = yield from self.ev(e, env)
                out.append(x)
            return out
        if t is ast.Dict:
            d = {}
            for k, v in zip(node.keys, node.values):
                kk = yield from self.ev(k, env)
                vv = yield from self.ev(v, env)
                d[self.hashable(kk)] = vv
            return d
        if t is ast.IfExp:
            c = yield from self.ev(node.test, env)
            if is_sym(c) and self.term_mode:
                a = yield from self.ev(node.body, env)
                b = yield from self.ev(node.orelse, env)
                return mk_ite(to_bool(c), a, b)
            if self.truth(c):
                r = yield from self.ev(node.body, env)
            else:
                r = yield from self.ev(node.orelse, env)
            return r
        if t is ast.Lambda:
            return SFunc(node, env.module, env, name='<lambda>')
        if t in (ast.ListComp, ast.DictComp, ast.GeneratorExp, ast.SetComp):
            r = yield from self.ev_comp(node, env)
            return r
        if t is ast.Yield:
            v = None
            if node.value is not None:
                v = yield from self.ev(node.value, env)
            yield YieldEvent(v)
            return None
        if t is ast.Slice:
            lo = hi = step = None
            if node.lower is not None:
                lo = yield from self.ev(node.lower, env)
            if node.upper is not None:
                hi = yield from self.ev(node.upper, env)
            if node.step is not None:
                step = yield from self.ev(node.step, env)
            return slice(lo, hi, step)
        if t is ast.JoinedStr:
            parts = []
            for v in node.values:
                if isinstance(v, ast.Constant):
                    parts.append(v.value)
                else:
                    x = yield from self.ev(v.value, env)
                    if v.format_spec is not None or v.conversion != -1 or not isinstance(x, str):
                        return SStr()          # the text of a formatted number is not modelled
                    parts.append(x)
            return ''.join(parts)
        if t is ast.NamedExpr:
            v = yield from self.ev(node.value, env)
            yield from self.assign(node.target, v, env)
            return v
        if t is ast.Set:
            items = []
            for e in node.elts:
                x = yield from self.ev(e, env)
                items.append(x)
            if any(is_sym(x) for x in items):
                raise Unsupported('set display with symbolic members')
            return set(items)
        if t is ast.Starred:
            raise Unsupported('starred expression')
        raise Unsupported('expression %s' % t.__name__)

    def hashable(self, k):
        if isinstance(k, list):
            raise SymRaise('TypeError', 'unhashable list')
        if isinstance(k, (SArr, dict)):
            raise SymRaise('TypeError', 'unhashable key')
        if isinstance(k, tuple):
            def bad(t):
                return any(isinstance(x, (SArr, dict, list)) or (isinstance(x, tuple) and bad(x)) for x in t)
            if bad(k):
                raise SymRaise('TypeError', 'unhashable key')
        if SymKey.symbolic(k):
            return SymKey(k, self)
        return k

    def dkey(self, d, key):
        """The key object under which `key` is looked up / stored in the Python dict d (see SymKey)."""
        k = self.hashable(key)
        has_sym = any(isinstance(x, SymKey) for x in d)
        if isinstance(k, SymKey) or has_sym:
            if not isinstance(k, SymKey):
                k = SymKey(k, self)
            for x in list(d):
                if not isinstance(x, SymKey) and SymKey.skeleton(x) == k._skel:
                    d[SymKey(x, self)] = d.pop(x)        # same skeleton: must take part in the equality decision
        return k

    def ev_key(self, node, env):
        r = yield from self.ev(node, env)
        return r

    def lookup(self, name, env):
        try:
            return env.lookup(name)
        except KeyError:
            pass
        if env.module is not None and env.module.env is not None:
            try:
                return env.module.env.lookup(name)
            except KeyError:
                pass
        if name in BUILTIN_EXC:
            return SExcClass(name)
        if name in ('True', 'False', 'None'):
            return {'True': True, 'False': False, 'None': None}[name]
        if name == 'PI':
            return PI
        if name == '__debug__':
            return True          # assert statements are executed (assumption A_ASSERT: not run under python -O)
        if ('builtins.' + name) in self.models:
            return SBuiltin('builtins.' + name)
        raise Unsupported('unknown name %s' % name)

    def ev_boolop(self, node, env):
        is_and = isinstance(node.op, ast.And)
        if self.term_mode:
            vals = []
            for e in node.values:
                v = yield from self.ev(e, env)
                vals.append(v)
            if all(is_boolish(v) for v in vals):
                return mk_and(*vals) if is_and else mk_or(*vals)
            raise Unsupported('non-boolean and/or inside a pointwise term')
        v = None
        for e in node.values:
            v = yield from self.ev(e, env)
            tv = self.truth(v)
            if is_and and not tv:
                return v if not is_sym(v) else False
            if not is_and and tv:
                return v if not is_sym(v) else True
        return v if not is_sym(v) else (True if is_and else False)

    def ev_compare(self, node, env):
        left = yield from self.ev(node.left, env)
        result = True
        for op, rn in zip(node.ops, node.comparators):
            right = yield from self.ev(rn, env)
            r = yield from self.compare(type(op), left, right)
            if len(node.ops) == 1:
                return r
            if self.term_mode:
                result = mk_and(result, r)
            else:
                if not self.truth(r):
                    return False
            left = right
        return result

    def compare(self, op, a, b):
        if op is ast.Is or op is ast.IsNot:
            r = self.identical(a, b)
            return mk_not(r) if op is ast.IsNot else r
        if op is ast.In or op is ast.NotIn:
            r = yield from self.contains(b, a)
            return mk_not(r) if op is ast.NotIn else r
        sym = {ast.Lt: '<', ast.LtE: '<=', ast.Gt: '>', ast.GtE: '>=', ast.Eq: '==', ast.NotEq: '!='}[op]
        r = yield from self.rich_compare(sym, a, b)
        return r

    def identical(self, a, b):
        if isinstance(a, SOpt) and b is None:
            return a.isnone
        if isinstance(b, SOpt) and a is None:
            return b.isnone
        if a is None or b is None:
            return a is b
        if isinstance(a, SObj) and isinstance(b, SObj):
            return a.oid == b.oid
        if isinstance(a, SRef) and isinstance(b, SRef):
            return a.key == b.key
        if isinstance(a, SArr) and isinstance(b, SArr):
            return a is b or (a.token == b.token and a.fwd is None and b.fwd is None)
        if isinstance(a, (bool, SEnum)) or isinstance(b, (bool, SEnum)):
            return a is b or (isinstance(a, SEnum) and a == b)
        if type(a) is not type(b):
            return False
        if isinstance(a, SBuiltin) and a.bound is None and b.bound is None:
            return a.name == b.name          # the builtin types and functions are singletons
        if isinstance(a, SExcClass):
            return a.name == b.name
        return a is b

    def contains(self, container, x):
        if isinstance(container, (tuple, list, set)):
            acc = False
            for c in container:
                cv = c
                if isinstance(c, SOpt) and (isinstance(c.val, SArr) or isinstance(x, SArr)):
                    if x is None and self.truth(c.isnone):
                        return True
                    cv = self.unopt(c, '`in`') if x is not None else c.val
                if isinstance(cv, SArr) or isinstance(x, SArr):
                    # `x in seq` is `any(x is c or x == c)`: an array compares elementwise and its truth value is
                    # only defined for exactly one element
                    if acc is not False and self.truth(acc):
                        return True
                    acc = False
                    if self.identical(x, cv) is True:
                        return True
                    arr, other = (cv, x) if isinstance(cv, SArr) else (x, cv)
                    if not self.truth(mk_eq(shape_size(arr.shape), 1)):
                        raise SymRaise('ValueError', 'The truth value of an array with more than one element is ambiguous')
                    if other is None or isinstance(other, (str, SStr, SObj, SRef)):
                        continue
                    e = yield from self.rich_compare('==', x, cv)
                    one = e.elem(self.st, tuple(0 for _ in e.shape)) if isinstance(e, SArr) else e
                    if self.truth(one):
                        return True
                    continue
                e = yield from self.rich_compare('==', x, c)
                acc = mk_or(acc, e)
            return acc
        if isinstance(container, dict):
            return self.dkey(container, x) in container
        if isinstance(container, str):
            return x in container
        raise Unsupported('`in` on %r' % (container,))

    def rich_compare(self, sym, a, b):
        a = a.val if isinstance(a, SOpt) and sym not in ('==', '!=') else a
        if isinstance(a, (SArr, SMasked)) or isinstance(b, (SArr, SMasked)):
            r = yield from self.elementwise(lambda x, y: mk_cmp(sym, x, y), [a, b], 'bool')
            return r
        if isinstance(a, SEnumSym) or isinstance(b, SEnumSym):
            if sym not in ('==', '!='):
                raise Unsupported('ordering of enum members')
            ta = a.term if isinstance(a, SEnumSym) else (a.value if isinstance(a, SEnum) else None)
            tb = b.term if isinstance(b, SEnumSym) else (b.value if isinstance(b, SEnum) else None)
            if ta is None or tb is None:
                return sym == '!='
            return mk_cmp(sym, ta, tb)
        if isinstance(a, SEnum) or isinstance(b, SEnum):
            if sym == '==':
                return a == b
            if sym == '!=':
                return not (a == b)
            raise Unsupported('ordering of enum members')
        if (is_num(a) or is_boolish(a)) and (is_num(b) or is_boolish(b)):
            return mk_cmp(sym, a, b)
        if isinstance(a, str) and isinstance(b, str):
            return {'==': a == b, '!=': a != b, '<': a < b, '<=': a <= b, '>': a > b, '>=': a >= b}[sym]
        if sym in ('==', '!='):
            if a is None or b is None or isinstance(a, SOpt) or isinstance(b, SOpt):
                r = self.identical(a, b) if (a is None or b is None) else None
                if r is None:
                    raise Unsupported('== between optionals')
                return r if sym == '==' else mk_not(r)
            if isinstance(a, (tuple, list)) and isinstance(b, (tuple, list)) and type(a) is type(b):
                if len(a) != len(b):
                    return sym == '!='
                acc = True
                for x, y in zip(a, b):
                    e = yield from self.rich_compare('==', x, y)
                    acc = mk_and(acc, e)
                return acc if sym == '==' else mk_not(acc)
            if isinstance(a, (SObj, SRef)) and isinstance(b, (SObj, SRef)):
                r = self.identical(a, b)
                return r if sym == '==' else mk_not(r)
            if isinstance(a, (str, SStr)) or isinstance(b, (str, SStr)):
                if isinstance(a, SStr) or isinstance(b, SStr):
                    raise Unsupported('comparison with opaque string')
                return sym == '!='
            if type(a) is not type(b):
                return sym == '!='
        raise Unsupported('comparison %s between %r and %r' % (sym, a, b))

    def ev_comp(self, node, env):
        if isinstance(node, ast.GeneratorExp):
            # evaluate eagerly into a list (all uses in scope consume immediately)
            pass
        results = [] if not isinstance(node, ast.DictComp) else {}

        def rec(gi, e):
            if gi == len(node.generators):
                if isinstance(node, ast.DictComp):
                    k = yield from self.ev(node.key, e)
                    v = yield from self.ev(node.value, e)
                    results[self.hashable(k)] = v
                else:
                    v = yield from self.ev(node.elt, e)
                    results.append(v)
                return
            g = node.generators[gi]
            it = yield from self.ev(g.iter, e)
            loop = self.iterate(it)
            while True:
                item = yield from self.next_item(loop)
                if item is END:
                    break
                yield from self.assign(g.target, item, e)
                ok = True
                for cond in g.ifs:
                    c = yield from self.ev(cond, e)
                    if not self.truth(c):
                        ok = False
                        break
                if ok:
                    yield from rec(gi + 1, e)
        e = Env(parent=env)
        yield from rec(0, e)
        if isinstance(node, ast.SetComp):
            return set(results)
        return results

    # ------------------------------------------------------------------ arithmetic
    def binop(self, op, a, b):
        if isinstance(a, SObj):
            name = self.BINOPS.get(op)
            f = self.find_method(a.cls, name) if name else None
            if f is None:
                raise SymRaise('TypeError', 'unsupported operand')
            r = yield from self.call_function(f, [a, b], {})
            return r
        if isinstance(b, SObj):
            rname = {'__add__': '__radd__', '__sub__': '__rsub__', '__mul__': '__rmul__',
                     '__truediv__': '__rtruediv__'}.get(self.BINOPS.get(op))
            f = self.find_method(b.cls, rname) if rname else None
            if f is None:
                raise SymRaise('TypeError', 'unsupported operand')
            r = yield from self.call_function(f, [b, a], {})
            return r
        if isinstance(a, SQty) or isinstance(b, SQty):
            from .models import qty_binop
            return qty_binop(self, op, a, b)
        a = self.unopt(a)
        b = self.unopt(b)
        if isinstance(a, list) and isinstance(b, list) and op is ast.Add:
            return a + b
        if isinstance(a, str) and isinstance(b, (str, SStr)) or isinstance(a, SStr):
            return SStr() if isinstance(a, SStr) or isinstance(b, SStr) else a + b
        if isinstance(a, str) and op is ast.Mod:
            return SStr()
        if isinstance(a, (list, tuple)) and is_concrete_num(b) and op is ast.Mult:
            return a * b
        if isinstance(a, (SArr, SMasked, list)) or isinstance(b, (SArr, SMasked, list)):
            f = self.scalar_binop_fn(op)
            r = yield from self.elementwise(f, [a, b], None)
            return r
        return self.scalar_binop(op, a, b)

    def scalar_binop_fn(self, op):
        return lambda x, y: self.scalar_binop(op, x, y)

    def scalar_binop(self, op, a, b):
        if not ((is_num(a) or is_boolish(a)) and (is_num(b) or is_boolish(b))):
            raise SymRaise('TypeError', 'unsupported operand types %r %r' % (a, b))
        if op is ast.Add:
            return mk_add(a, b)
        if op is ast.Sub:
            return mk_sub(a, b)
        if op is ast.Mult:
            return mk_mul(a, b)
        if op is ast.Div:
            return mk_div(a, b)
        if op is ast.FloorDiv:
            return mk_floordiv(a, b)
        if op is ast.Mod:
            return mk_mod(a, b)
        if op is ast.Pow:
            return self.power(a, b)
        raise Unsupported('binary operator %s' % op.__name__)

    def power(self, a, e):
        if is_sym(e):
            if z3.is_int(e):
                f = z3.Function('ipow', z3.RealSort(), z3.IntSort(), z3.RealSort())
                return f(to_real(a), e)
            # real symbolic exponent: only integer-valued reals appear (e.g. 3.0)
            raise Unsupported('symbolic real exponent')
        if isinstance(e, bool):
            e = int(e)
        if is_int_valued(e):
            n = int(e)
            if n == 0:
                return 1
            base = a
            if not is_sym(base):
                if n < 0 and base == 0:
                    raise SymRaise('ZeroDivisionError')
                return Fraction(base) ** n if n < 0 or isinstance(base, Fraction) else base ** n
            r = base
            for _ in range(abs(n) - 1):
                r = r * base
            if n < 0:
                return 1 / to_real(r)
            return r
        # rational, non-integer exponent
        e = Fraction(e)
        if e == Fraction(1, 2):
            return self.sqrt(a)
        if e == Fraction(-1, 2):
            return mk_div(1, self.sqrt(a))
        if e == Fraction(3, 2):
            return mk_mul(a, self.sqrt(a))
        if not is_sym(a):
            # algebraic constant x = a**(p/q): x > 0, x**q == a**p   (a > 0)
            if a <= 0:
                raise Unsupported('fractional power of a non-positive constant')
            name = 'root_%s_%s_%s' % (str(a).replace('/', 'd'), e.numerator, e.denominator)
            x = z3.Real(name)
            lhs = x
            for _ in range(e.denominator - 1):
                lhs = lhs * x
            rhs = Fraction(a) ** e.numerator
            self.st.add_fact(x > 0)
            self.st.add_fact(lhs == to_z3(rhs))
            approx = Fraction(float(a) ** float(e)).limit_denominator(10 ** 9)
            self.st.add_fact(x > to_z3(approx - Fraction(1, 10 ** 8)))
            self.st.add_fact(x < to_z3(approx + Fraction(1, 10 ** 8)))
            return x
        raise Unsupported('fractional power %s of a symbolic base' % e)

    def sqrt(self, a):
        f = ufun('sqrt')
        t = f(to_real(a))
        if is_sym(a):
            self.st.add_fact(z3.Implies(to_real(a) >= 0, z3.And(t >= 0, t * t == to_real(a))))
        else:
            if a < 0:
                raise Unsupported('sqrt of a negative constant')
            self.st.add_fact(z3.And(t >= 0, t * t == to_real(a)))
        return t

    def transcendental(self, name, a):
        if isinstance(a, (SArr, SMasked, list)):
            r = yield from self.elementwise(lambda x: self.transcendental_scalar(name, x), [a], 'real')
            return r
        return self.transcendental_scalar(name, self.unopt(a))

    def transcendental_scalar(self, name, a):
        if name == 'sqrt':
            return self.sqrt(a)
        if name == 'abs':
            if is_sym(a) and z3.is_int(a) and getattr(self.st, 'loop_vars', None):
                # inside a summarised loop: the sign of an index difference is usually fixed by the loop bounds
                if not self.st.feasible(a < 0):
                    return a
                if not self.st.feasible(a > 0):
                    return mk_neg(a)
            return mk_abs(a)
        f = ufun(name)
        t = f(to_real(a))
        if name == 'exp':
            self.st.add_fact(t > 0)
        return t

    def unop(self, op, a):
        if op is ast.Not:
            if is_sym(a) and z3.is_bool(a) and self.term_mode:
                return z3.Not(a)
            if isinstance(a, (SArr, SMasked)):
                raise Unsupported('not on array')
            return not self.truth(a)
        a = self.unopt(a)
        if isinstance(a, (SArr, SMasked)):
            if op is ast.USub:
                r = yield from self.elementwise(mk_neg, [a], None)
                return r
            if op is ast.UAdd:
                r = yield from self.elementwise(lambda x: x, [a], None)
                return r
            if op is ast.Invert:
                r = yield from self.elementwise(mk_not, [a], 'bool')
                return r
        if isinstance(a, SQty):
            from .models import qty_neg
            return qty_neg(self, op, a)
        if op is ast.USub:
            return mk_neg(a)
        if op is ast.UAdd:
            return a
        raise Unsupported('unary operator %s' % op.__name__)

    # ------------------------------------------------------------------ arrays
    def as_array(self, v):
        if isinstance(v, SArr):
            return v
        if isinstance(v, (list, tuple)):
            items = list(v)
            if any(isinstance(x, (list, tuple, SArr)) for x in items):
                raise Unsupported('nested list to array')
            items = [self.unopt(x) for x in items]
            dtype = 'real'
            if items and all(isinstance(x, bool) or (is_sym(x) and z3.is_bool(x)) for x in items):
                dtype = 'bool'
            elif items and all(isinstance(x, int) or (is_sym(x) and z3.is_int(x)) for x in items):
                dtype = 'int'
            return self.st.new_array((len(items),), list_to_fn(items), dtype)
        raise Unsupported('cannot convert %r to an array' % (v,))

    def dims_equal(self, a, b):
        """Python bool: are two dimensions equal on this path (forks if undetermined)."""
        if same_term(a, b):
            return True
        if not is_sym(a) and not is_sym(b):
            return a == b
        return self.decide(mk_eq(a, b))

    def broadcast(self, shapes):
        """Return (result shape, [index mappers]) following numpy's rule; raises ValueError paths."""
        nd = max(len(s) for s in shapes)
        padded = [(1,) * (nd - len(s)) + tuple(s) for s in shapes]
        res = []
        bflags = [[False] * nd for _ in shapes]
        for d in range(nd):
            cur = None
            for k, s in enumerate(padded):
                x = s[d]
                if not is_sym(x) and x == 1:
                    bflags[k][d] = True
                    continue
                if cur is None:
                    cur = x
                    continue
                if self.dims_equal(cur, x):
                    continue
                # not equal: one of them may still be 1 (symbolic)
                if is_sym(x) and self.decide(mk_eq(x, 1)):
                    bflags[k][d] = True
                    continue
                if is_sym(cur) and self.decide(mk_eq(cur, 1)):
                    for k2 in range(k):
                        if not bflags[k2][d]:
                            bflags[k2][d] = True
                    cur = x
                    continue
                raise SymRaise('ValueError', 'operands could not be broadcast together')
            res.append(1 if cur is None else cur)
        mappers = []
        for k, s in enumerate(shapes):
            off = nd - len(s)
            fl = bflags[k]

            def mp(idx, off=off, fl=fl, n=len(s)):
                return tuple(0 if fl[off + j] else idx[off + j] for j in range(n))
            mappers.append(mp)
        return tuple(res), mappers

    def elementwise(self, f, operands, dtype):
        """Apply scalar function f elementwise (numpy ufunc semantics with broadcasting)."""
        ops = []
        for o in operands:
            o = self.unopt(o)
            if isinstance(o, (list, tuple)):
                o = self.as_array(o)
            ops.append(o)
        masked = [o for o in ops if isinstance(o, SMasked)]
        if masked:
            m0 = masked[0]
            fns = []
            for o in ops:
                if isinstance(o, SMasked):
                    if o.mask is not m0.mask:
                        raise Unsupported('operands masked with different masks')
                    fns.append(o.fn)
                elif isinstance(o, SArr):
                    raise Unsupported('masked and unmasked array operands mixed')
                else:
                    fns.append(None)
            consts = ops

            def mfn(idx):
                return f(*[fn(idx) if fn is not None else c for fn, c in zip(fns, consts)])
            return SMasked(m0.mask, m0.maskfn, memo(mfn), m0.shape, dtype or 'real')
        arrs = [o for o in ops if isinstance(o, SArr)]
        if not arrs:
            return f(*ops)
        shape, mappers = self.broadcast([o.shape for o in arrs])
        snaps = [o.snapshot(self.st) for o in arrs]
        it = iter(zip(snaps, mappers))
        slots = []
        for o in ops:
            if isinstance(o, SArr):
                slots.append(next(it))
            else:
                slots.append(None)
        consts = ops

        def fn(idx):
            args = []
            for sl, c in zip(slots, consts):
                if sl is None:
                    args.append(c)
                else:
                    args.append(sl[0](sl[1](idx)))
            return f(*args)
        if dtype is None:
            dts = [o.dtype for o in arrs]
            dtype = 'real'
            if all(d == 'int' for d in dts) and all(isinstance(c, int) or (is_sym(c) and z3.is_int(c))
                                                    for c in ops if not isinstance(c, SArr)):
                dtype = 'int'
            if f is mk_div or getattr(f, '_is_div', False):
                dtype = 'real'
        return self.st.new_array(shape, fn, dtype)
        yield  # pragma: no cover

    def arr_inplace(self, op, cur, rhs):
        f = self.scalar_binop_fn({ast.Add: ast.Add, ast.Sub: ast.Sub, ast.Mult: ast.Mult, ast.Div: ast.Div}.get(op, op))
        if op is ast.MatMult:
            raise Unsupported('in-place matmul on ndarray')
        if isinstance(rhs, (list, tuple)):
            rhs = self.as_array(rhs)
        if isinstance(rhs, SArr):
            shape, mappers = self.broadcast([cur.shape, rhs.shape])
            # the result must have the shape of cur
            for a, b in zip(shape, cur.shape):
                if not self.dims_equal(a, b):
                    raise SymRaise('ValueError', 'non-broadcastable output operand')
            if len(shape) != len(cur.shape):
                raise SymRaise('ValueError', 'non-broadcastable output operand')
            rs = rhs.snapshot(self.st)
            cs = cur.snapshot(self.st)
            mp = mappers[1]
            store_write(self.st, cur, lambda vi: f(cs(vi), rs(mp(vi))))
        elif isinstance(rhs, SMasked):
            raise Unsupported('in-place op with masked operand')
        else:
            cs = cur.snapshot(self.st)
            store_write(self.st, cur, lambda vi: f(cs(vi), rhs))
        return None
        yield  # pragma: no cover

    def arr_index(self, a, key):
        """Basic / mask indexing of an array."""
        if not isinstance(key, tuple):
            key = (key,)
        if len(key) == 1 and isinstance(key[0], SArr) and key[0].dtype == 'bool':
            m = key[0]
            if len(m.shape) != len(a.shape):
                raise Unsupported('mask of different rank')
            for x, y in zip(m.shape, a.shape):
                if not self.dims_equal(x, y):
                    raise SymRaise('IndexError', 'boolean index did not match')
            return SMasked(m, m.snapshot(self.st), a.snapshot(self.st), a.shape, a.dtype)
        if any(isinstance(k, (SArr, list)) for k in key):
            plan = self._fancy_plan(a, key)
            sa = a.snapshot(self.st)
            m = plan['m']

            def fn(idx, plan=plan, sa=sa):
                return sa(self._fancy_source(plan, idx))
            return self.st.new_array(plan['shape'], fn, a.dtype)      # advanced indexing returns a copy
        if len(key) > len(a.shape):
            raise SymRaise('IndexError', 'too many indices')
        key = tuple(key) + (slice(None),) * (len(a.shape) - len(key))
        spec = []       # per base dim: ('fix', i) | ('sl', start, viewdim)
        newshape = []
        for d, k in enumerate(key):
            n = a.shape[d]
            if isinstance(k, slice):
                if k.step not in (None, 1):
                    raise Unsupported('strided slice')
                lo = 0 if k.start is None else k.start
                hi = n if k.stop is None else k.stop
                if is_sym(lo) or (not is_sym(lo) and lo < 0) or (not is_sym(hi) and hi < 0):
                    raise Unsupported('slice bound')
                # clamp: stop' = min(hi, n), start' = min(lo, n)
                if same_term(hi, n):
                    hi2 = n
                elif not is_sym(hi) and not is_sym(n):
                    hi2 = min(hi, n)
                else:
                    hi2 = mk_ite(mk_cmp('<', hi, n), hi, n)
                if not is_sym(lo) and lo == 0:
                    ln = hi2
                else:
                    ln = mk_sub(hi2, lo)
                    if not is_sym(ln):
                        ln = max(ln, 0)
                    else:
                        ln = mk_ite(ln >= 0, ln, 0)
                spec.append(('sl', lo, len(newshape)))
                newshape.append(simp(ln))
            else:
                k = self.unopt(k)
                if isinstance(k, bool) or not (isinstance(k, int) or (is_sym(k) and z3.is_int(k))):
                    raise SymRaise('IndexError', 'invalid index')
                if not is_sym(k) and k < 0:
                    k = mk_add(n, k)
                if not self.term_mode:
                    ok = mk_and(mk_cmp('>=', k, 0), mk_cmp('<', k, n))
                    if not self.decide(ok):
                        raise SymRaise('IndexError', 'index out of bounds')
                spec.append(('fix', k))
        pfwd, pinv = a.fwd, a.inv

        def fwd(idx):
            out = []
            for sp in spec:
                if sp[0] == 'fix':
                    out.append(sp[1])
                else:
                    out.append(mk_add(idx[sp[2]], sp[1]))
            out = tuple(out)
            return pfwd(out) if pfwd else out

        def inv(b):
            if pinv:
                c, vi = pinv(b)
                if c is False:
                    return False, None
            else:
                c, vi = True, b
            out = [None] * len(newshape)
            for d, sp in enumerate(spec):
                if sp[0] == 'fix':
                    c = mk_and(c, mk_eq(vi[d], sp[1]))
                else:
                    j = mk_sub(vi[d], sp[1])
                    c = mk_and(c, mk_cmp('>=', j, 0), mk_cmp('<', j, newshape[sp[2]]))
                    out[sp[2]] = j
                if c is False:
                    return False, None
            return c, tuple(out)
        if not newshape:
            return a.elem(self.st, tuple(sp[1] for sp in spec))
        return SArr(a.token, tuple(newshape), fwd, inv, a.dtype)

    def _fancy_plan(self, a, key):
        """Integer-array indexing a[:, I, J, ...]: full slices and one run of adjacent 1-D integer index arrays of the
        same *concrete* length m (np.arange(rank), np.triu_indices(rank), lists).  Result dims: the sliced dims with
        the run replaced by one dim of length m (numpy's rule for adjacent advanced indices)."""
        key = tuple(key) + (slice(None),) * (len(a.shape) - len(key))
        if len(key) != len(a.shape):
            raise SymRaise('IndexError', 'too many indices')
        adv = [d for d, k in enumerate(key) if isinstance(k, (SArr, list))]
        if adv != list(range(adv[0], adv[-1] + 1)):
            raise Unsupported('fancy indexing with separated index arrays')
        idxs = []
        m = None
        for d in adv:
            k = key[d]
            k = self.as_array(k) if isinstance(k, list) else k
            if k.dtype != 'int' or len(k.shape) != 1 or is_sym(k.shape[0]):
                raise Unsupported('fancy indexing with a non-integer / symbolic-length index array')
            if m is None:
                m = int(k.shape[0])
            elif int(k.shape[0]) != m:
                raise SymRaise('IndexError', 'shape mismatch: indexing arrays could not be broadcast together')
            ks = k.snapshot(self.st)
            n_d = a.shape[d]
            col = []
            for j in range(m):
                v = ks((j,))
                v = simp(v) if is_sym(v) else v
                if not is_sym(v) or z3.is_int_value(v):
                    iv = int(v.as_long()) if is_sym(v) else int(v)
                    v = mk_add(n_d, iv) if iv < 0 else iv          # negative indices count from the end
                col.append(v)
            idxs.append(col)
        for d, k in enumerate(key):
            if d not in adv and not (isinstance(k, slice) and k.start is None and k.stop is None and k.step is None):
                raise Unsupported('fancy indexing combined with partial slices / integers')
        shape = tuple(a.shape[:adv[0]]) + (m,) + tuple(a.shape[adv[-1] + 1:])
        return {'adv': adv, 'idxs': idxs, 'm': m, 'shape': shape, 'ndim': len(a.shape)}

    def _fancy_source(self, plan, idx):
        """Index into the indexed array for result index `idx`."""
        adv, idxs, m = plan['adv'], plan['idxs'], plan['m']
        j = idx[adv[0]]
        out = list(idx[:adv[0]])
        for col in idxs:
            if is_sym(j):
                t = col[m - 1]
                for q in range(m - 2, -1, -1):
                    t = mk_ite(mk_eq(j, q), col[q], t)
                out.append(t)
            else:
                out.append(col[int(j)])
        out.extend(idx[adv[0] + 1:])
        return tuple(out)

    def _fancy_store(self, a, key, v):
        plan = self._fancy_plan(a, key)
        adv, idxs, m = plan['adv'], plan['idxs'], plan['m']
        if isinstance(v, SArr):
            shape, mappers = self.broadcast([plan['shape'], v.shape])
            if len(shape) != len(plan['shape']):
                raise SymRaise('ValueError', 'shape mismatch: value array could not be broadcast to indexing result')
            for x, y in zip(shape, plan['shape']):
                if not self.dims_equal(x, y):
                    raise SymRaise('ValueError', 'shape mismatch: value array could not be broadcast to indexing result')
            vs, mp = v.snapshot(self.st), mappers[1]

            def val_at(ridx):
                return vs(mp(ridx))
        elif is_num(v) or is_boolish(v):
            def val_at(ridx):
                return v
        else:
            raise Unsupported('fancy-index assignment of %r' % (v,))

        def hit(vi, j):
            return mk_and(*[mk_eq(vi[d], idxs[n][j]) for n, d in enumerate(adv)])

        def cond(vi):
            return mk_or(*[hit(vi, j) for j in range(m)])

        def val(vi):
            out = None
            for j in range(m):              # numpy: for repeated index tuples the last assignment wins
                ridx = tuple(vi[:adv[0]]) + (j,) + tuple(vi[adv[-1] + 1:])
                x = val_at(ridx)
                out = x if out is None else mk_ite(hit(vi, j), x, out)
            return out
        store_write(self.st, a, val, condfn=cond)

    def arr_setitem(self, a, key, v):
        v = self.unopt(v)
        if isinstance(v, (list, tuple)):
            v = self.as_array(v)
        if isinstance(key, tuple) and any(isinstance(k, (SArr, list)) and not (isinstance(k, SArr) and k.dtype == 'bool') for k in key):
            self._fancy_store(a, key, v)
            return
        tgt = self.arr_index(a, key) if not (isinstance(key, tuple) and len(key) == 0) else a
        if isinstance(tgt, SMasked):
            m = tgt
            if isinstance(v, SMasked):
                if v.mask is not m.mask:
                    raise Unsupported('assignment between differently masked arrays')
                store_write(self.st, a, v.fn, condfn=lambda vi: m.maskfn(vi))
            elif isinstance(v, SArr):
                raise Unsupported('masked assignment from an unmasked array')
            else:
                store_write(self.st, a, lambda vi: v, condfn=lambda vi: m.maskfn(vi))
            return
        if not isinstance(tgt, SArr):
            # single element
            if not isinstance(key, tuple):
                key = (key,)
            one = SArr(a.token, (), (lambda idx: a.fwd(tuple(key)) if a.fwd else tuple(key)),
                       self._point_inv(a, key), a.dtype)
            store_write(self.st, one, lambda vi: v)
            return
        if isinstance(v, SArr):
            shape, mappers = self.broadcast([tgt.shape, v.shape])
            if len(shape) != len(tgt.shape):
                raise SymRaise('ValueError', 'could not broadcast input array')
            for x, y in zip(shape, tgt.shape):
                if not self.dims_equal(x, y):
                    raise SymRaise('ValueError', 'could not broadcast input array')
            vs = v.snapshot(self.st)
            mp = mappers[1]
            store_write(self.st, tgt, lambda vi: vs(mp(vi)))
        elif isinstance(v, SMasked):
            raise Unsupported('assignment of masked values to a slice')
        else:
            if not (is_num(v) or is_boolish(v)):
                raise Unsupported('array element assignment of %r' % (v,))
            store_write(self.st, tgt, lambda vi: v)

    def _point_inv(self, a, key):
        pinv = a.inv

        def inv(b):
            if pinv:
                c, vi = pinv(b)
                if c is False:
                    return False, None
            else:
                c, vi = True, b
            for d, k in enumerate(key):
                c = mk_and(c, mk_eq(vi[d], k))
            return c, ()
        return inv

    def reshape(self, a, newshape):
        newshape = list(newshape)
        total = shape_size(a.shape)
        if -1 in [x for x in newshape if not is_sym(x)]:
            k = [i for i, x in enumerate(newshape) if (not is_sym(x) and x == -1)]
            if len(k) != 1:
                raise SymRaise('ValueError', 'can only specify one unknown dimension')
            rest = 1
            for i, x in enumerate(newshape):
                if i != k[0]:
                    rest = mk_mul(rest, x)
            if is_sym(rest):
                raise Unsupported('reshape with symbolic known dimensions')
            if not is_sym(total):
                if rest == 0 or total % rest != 0:
                    raise SymRaise('ValueError', 'cannot reshape')
                newshape[k[0]] = total // rest
            else:
                if rest == 1:
                    newshape[k[0]] = total
                else:
                    q = simp(to_int(total) / rest)
                    if not self.decide(mk_eq(mk_mul(q, rest), total)):
                        raise SymRaise('ValueError', 'cannot reshape')
                    newshape[k[0]] = q
        else:
            if not self.dims_equal(shape_size(newshape), total):
                raise SymRaise('ValueError', 'cannot reshape')
        newshape = tuple(newshape)
        oldshape = a.shape
        pfwd, pinv = a.fwd, a.inv

        def fwd(idx):
            base = unflatten(flat_index(idx, newshape), oldshape)
            return pfwd(base) if pfwd else base

        def inv(b):
            if pinv:
                c, vi = pinv(b)
                if c is False:
                    return False, None
            else:
                c, vi = True, b
            return c, unflatten(flat_index(vi, oldshape), newshape)
        return SArr(a.token, newshape, fwd, inv, a.dtype)

    def copy_array(self, a):
        return self.st.new_array(a.shape, a.snapshot(self.st), a.dtype)

    # ------------------------------------------------------------------ attribute access
    def find_method(self, cls, name):
        if not isinstance(cls, SClass):
            return None
        for c in cls.mro():
            v = c.attrs.get(name)
            if isinstance(v, SFunc):
                return v
        return None

    def find_prop(self, cls, name):
        if not isinstance(cls, SClass):
            return None
        for c in cls.mro():
            if name in c.props:
                return c.props[name]
        return None

    def class_attr(self, cls, name):
        for c in cls.mro():
            if name in c.attrs:
                return True, c.attrs[name]
        return False, None

    def getattr(self, obj, name):
        if isinstance(obj, SOpt):
            obj = self.unopt(obj, 'attribute base')
        if isinstance(obj, SObj):
            p = self.find_prop(obj.cls, name)
            if p is not None:
                r = yield from self.call_function(p[0], [obj], {})
                return r
            fields = self.st.heap[obj.oid]
            if name in fields:
                return fields[name]
            ok, v = self.class_attr(obj.cls, name) if isinstance(obj.cls, SClass) else (False, None)
            if ok:
                if isinstance(v, SFunc):
                    b = getattr(v, 'binding', None)
                    if b == 'staticmethod':
                        return v
                    if b == 'classmethod':
                        return SBound(v, obj.cls)
                    return SBound(v, obj)
                return v
            if name == '__class__':
                return obj.cls
            raise SymRaise('AttributeError', "'%s' object has no attribute '%s'" % (obj.cls.name, name))
        if isinstance(obj, SClass):
            ok, v = self.class_attr(obj, name)
            if ok:
                if isinstance(v, SFunc) and getattr(v, 'binding', None) == 'classmethod':
                    return SBound(v, obj)
                return v
            if name == '__name__':
                return obj.name
            raise SymRaise('AttributeError', name)
        if isinstance(obj, RepoModule):
            env = self.module_env(obj)
            if name in env.vars:
                return env.vars[name]
            sub = self.prog.load(obj.dotted + '.' + name)
            if sub is not None:
                self.module_env(sub)
                return sub
            raise SymRaise('AttributeError', name)
        if isinstance(obj, SModule):
            full = obj.name + '.' + name
            if full == 'numpy.pi' or full == 'math.pi':
                return PI
            if full == 'string.ascii_uppercase':
                return 'ABCDEFGHIJKLMNOPQRSTUVWXYZ'
            if full in ('numpy.linalg', 'scipy.fftpack', 'scipy.optimize', 'scipy.integrate', 'pint.errors',
                        'numpy.testing', 'numpy.random'):
                return SModule(full)
            if name in BUILTIN_EXC:
                return SExcClass(name)
            return SBuiltin(full)
        if isinstance(obj, SSuper):
            mro = obj.obj.cls.mro()
            i = mro.index(obj.cls)
            for c in mro[i + 1:]:
                v = c.attrs.get(name)
                if isinstance(v, SFunc):
                    return SBound(v, obj.obj)
            if name == '__init__':
                return SBuiltin('object.__init__', bound=obj.obj)
            raise SymRaise('AttributeError', name)
        if isinstance(obj, SArr):
            if name == 'shape':
                return tuple(obj.shape)
            if name == 'ndim':
                return len(obj.shape)
            if name == 'size':
                return shape_size(obj.shape)
            if name == 'T' and len(obj.shape) == 1:
                return obj
            if name == 'flags':
                return SFlags(obj)
            if name == 'dtype':
                return SDType(obj.dtype)
            return SBuiltin('ndarray.' + name, bound=obj)
        if isinstance(obj, list):
            return SBuiltin('list.' + name, bound=obj)
        if isinstance(obj, dict):
            return SBuiltin('dict.' + name, bound=obj)
        if isinstance(obj, (str, SStr)):
            return SBuiltin('str.' + name, bound=obj)
        if isinstance(obj, SFlags):
            if name == 'writeable':
                return obj.arr.token not in getattr(self.st, 'readonly', ())
            raise Unsupported('ndarray.flags.%s' % name)
        if isinstance(obj, SDType):
            info = dict(zip(('str', 'kind', 'name', 'itemsize'), SDType._INFO[obj.kind]))
            if name in info:
                return info[name]
            if name == 'char':
                return {'real': 'd', 'int': 'l', 'bool': '?'}[obj.kind]
            raise Unsupported('dtype.%s' % name)
        if isinstance(obj, SEnum):
            if name == 'value':
                return obj.value
            if name == 'name':
                return obj.name
        if isinstance(obj, SQty) or isinstance(obj, SReg):
            from .models import qty_getattr
            return qty_getattr(self, obj, name)
        if isinstance(obj, SRecord):
            if name in obj.fields:
                return obj.fields[name]
            raise SymRaise('AttributeError', name)
        if obj is None:
            raise SymRaise('AttributeError', "'NoneType' object has no attribute '%s'" % name)
        if isinstance(obj, SRef):
            raise Unsupported('attribute %s of an opaque object' % name)
        if is_num(obj) or isinstance(obj, (tuple, bool)):
            raise SymRaise('AttributeError', name)
        if isinstance(obj, SBuiltin) and obj.bound is None and obj.name == 'builtins.dict' and name == 'fromkeys':
            return SBuiltin('dict.fromkeys')
        raise Unsupported('getattr(%r, %s)' % (obj, name))

    def setattr(self, obj, name, v):
        if isinstance(obj, SOpt):
            obj = self.unopt(obj, 'attribute base')
        if isinstance(obj, SObj):
            p = self.find_prop(obj.cls, name)
            if p is not None:
                if p[1] is None:
                    raise SymRaise('AttributeError', "can't set attribute")
                yield from self.call_function(p[1], [obj, v], {})
                return
            self.st.heap[obj.oid][name] = v
            return
        if isinstance(obj, SRecord):
            obj.fields[name] = v
            return
        if isinstance(obj, SFlags):
            # read-only-ness is kept per storage: exact for an array that owns its data and has no earlier views
            if name != 'writeable' or not isinstance(v, bool) or obj.arr.fwd is not None:
                raise Unsupported('ndarray.flags.%s = %r' % (name, v))
            ro = getattr(self.st, 'readonly', None)
            if ro is None:
                ro = self.st.readonly = set()
            (ro.discard if v else ro.add)(obj.arr.token)
            return
        if isinstance(obj, SQty):
            raise Unsupported('attribute assignment on a quantity')
        if obj is None:
            raise SymRaise('AttributeError', "'NoneType' object has no attribute '%s'" % name)
        raise Unsupported('setattr on %r' % (obj,))

    # ------------------------------------------------------------------ subscripts
    def getitem(self, obj, key):
        if isinstance(obj, SOpt):
            obj = self.unopt(obj, 'subscript base')
        if isinstance(obj, SObj):
            f = self.find_method(obj.cls, '__getitem__')
            if f is None:
                raise SymRaise('TypeError', 'object is not subscriptable')
            r = yield from self.call_function(f, [obj, key], {})
            return r
        if isinstance(obj, SArr):
            return self.arr_index(obj, key)
        if isinstance(obj, SMasked):
            raise Unsupported('indexing a masked selection')
        if isinstance(obj, dict):
            k = self.dkey(obj, key)
            for kk in obj:                   # one equality decision per candidate (a second probe would split again)
                if kk is k or (hash(kk) == hash(k) and kk == k):
                    return obj[kk]
            raise SymRaise('KeyError', repr(k))
        if isinstance(obj, (list, tuple, str)):
            if isinstance(key, slice):
                if any(is_sym(x) for x in (key.start, key.stop, key.step)):
                    raise Unsupported('symbolic slice of a sequence')
                return obj[key]
            if is_sym(key):
                if isinstance(obj, (list, tuple)) and self.term_mode and all(is_num(x) or is_boolish(x) for x in obj) and obj:
                    return list_to_fn(list(obj))((key,))
                raise Unsupported('symbolic index into a sequence')
            if isinstance(key, bool) or not isinstance(key, int):
                raise SymRaise('TypeError', 'indices must be integers')
            if key >= len(obj) or key < -len(obj):
                raise SymRaise('IndexError', 'index out of range')
            return obj[key]
        if obj is None:
            raise SymRaise('TypeError', "'NoneType' object is not subscriptable")
        if is_num(obj):
            raise SymRaise('TypeError', 'scalar is not subscriptable')
        if isinstance(obj, SQty):
            from .models import qty_getitem
            return qty_getitem(self, obj, key)
        raise Unsupported('getitem on %r' % (obj,))

    def setitem(self, obj, key, v):
        if isinstance(obj, SOpt):
            obj = self.unopt(obj, 'subscript base')
        if isinstance(obj, SObj):
            f = self.find_method(obj.cls, '__setitem__')
            if f is None:
                raise SymRaise('TypeError', 'object does not support item assignment')
            yield from self.call_function(f, [obj, key, v], {})
            return
        if isinstance(obj, SArr):
            self.arr_setitem(obj, key, v)
            return
        if isinstance(obj, dict):
            obj[self.dkey(obj, key)] = v
            return
        if isinstance(obj, list):
            if is_sym(key) or isinstance(key, slice):
                raise Unsupported('list store with symbolic index / slice')
            if key >= len(obj) or key < -len(obj):
                raise SymRaise('IndexError', 'list assignment index out of range')
            obj[key] = v
            return
        if obj is None:
            raise SymRaise('TypeError', "'NoneType' object does not support item assignment")
        raise Unsupported('setitem on %r' % (obj,))

    # ------------------------------------------------------------------ calls
    def ev_call(self, node, env):
        fn = yield from self.ev(node.func, env)
        args = []
        for a in node.args:
            if isinstance(a, ast.Starred):
                v = yield from self.ev(a.value, env)
                args.extend(list(v))
            else:
                v = yield from self.ev(a, env)
                args.append(v)
        kwargs = {}
        for k in node.keywords:
            v = yield from self.ev(k.value, env)
            if k.arg is None:
                kwargs.update(v)
            else:
                kwargs[k.arg] = v
        r = yield from self.call(fn, args, kwargs)
        return r

    def call(self, fn, args, kwargs):
        if isinstance(fn, SBound):
            r = yield from self.call_function(fn.func, [fn.obj] + list(args), kwargs)
            return r
        if isinstance(fn, SFunc):
            r = yield from self.call_function(fn, list(args), kwargs)
            return r
        if isinstance(fn, SClass):
            r = yield from self.instantiate(fn, args, kwargs)
            return r
        if isinstance(fn, SExcClass):
            return SExcInst(fn.name, tuple(args))
        if isinstance(fn, SBroken):
            raise Unsupported(fn.why)
        if isinstance(fn, SCtxFactory):
            g = yield from self.call(fn.func, list(args), kwargs)
            if not isinstance(g, SGen):
                raise SymRaise('TypeError', 'contextmanager on a non-generator')
            return SGenCtx(g)
        if isinstance(fn, SPartial):
            kk = dict(fn.kw)
            kk.update(kwargs)
            r = yield from self.call(fn.func, list(fn.args) + list(args), kk)
            return r
        if isinstance(fn, SBuiltin):
            m = self.models.get(fn.name)
            if m is None:
                raise Unsupported('no model for %s' % fn.name)
            if fn.bound is not None:
                args = [fn.bound] + list(args)
            kwt = _TrackedKw(kwargs)
            r = m(self, list(args), kwt)
            if hasattr(r, '__next__') and hasattr(r, 'send'):
                r = yield from r
            if kwt.unread():
                # a model that never looked at a keyword would silently compute something else (A20)
                raise Unsupported('the model of %s ignores keyword(s) %s' % (fn.name, ', '.join(sorted(kwt.unread()))))
            return r
        if isinstance(fn, SUFun):
            (x,) = args
            x = self.unopt(x, 'argument')
            if not isinstance(x, SRef):
                raise Unsupported('uninterpreted function applied to %r' % (x,))
            return SRef((fn.name, x.key))
        if isinstance(fn, SPoly):
            from .models import poly_call
            return poly_call(self, fn, args)
        if isinstance(fn, SReg):
            from .models import reg_call
            return reg_call(self, fn, args)
        if isinstance(fn, SObj):
            f = self.find_method(fn.cls, '__call__')
            if f is not None:
                r = yield from self.call_function(f, [fn] + list(args), kwargs)
                return r
        raise SymRaise('TypeError', '%r is not callable' % (fn,))

    def instantiate(self, cls, args, kwargs):
        if cls.is_enum:
            raise Unsupported('enum construction')
        obj = self.st.new_obj(cls)
        init = self.find_method(cls, '__init__')
        if init is not None:
            yield from self.call_function(init, [obj] + list(args), kwargs)
        elif args or kwargs:
            raise SymRaise('TypeError', 'object() takes no parameters')
        return obj

    def bind_args(self, f, args, kwargs):
        a = f.node.args
        if a.posonlyargs:
            raise Unsupported('positional-only parameters')
        names = [x.arg for x in a.args]
        konly = [x.arg for x in a.kwonlyargs]
        env = Env(parent=f.env, module=f.module)
        bound = {}
        if len(args) > len(names) and a.vararg is None:
            raise SymRaise('TypeError', 'too many positional arguments')
        for n, v in zip(names, args):
            bound[n] = v
        if a.vararg is not None:
            bound[a.vararg.arg] = tuple(args[len(names):])
        extra = {}
        for k, v in kwargs.items():
            if k in names or k in konly:
                if k in bound:
                    raise SymRaise('TypeError', 'multiple values for argument %s' % k)
                bound[k] = v
            elif a.kwarg is not None:
                extra[k] = v
            else:
                raise SymRaise('TypeError', 'unexpected keyword argument %s' % k)
        if a.kwarg is not None:
            bound[a.kwarg.arg] = extra
        ndef = len(a.defaults)
        for i, n in enumerate(names):
            if n not in bound:
                j = i - (len(names) - ndef)
                if j < 0:
                    raise SymRaise('TypeError', 'missing required argument %s' % n)
                bound[n] = run_to_completion(self.ev(a.defaults[j], Env(parent=f.env, module=f.module)))
        for n, d in zip(konly, a.kw_defaults):
            if n not in bound:
                if d is None:
                    raise SymRaise('TypeError', 'missing required keyword-only argument %s' % n)
                bound[n] = run_to_completion(self.ev(d, Env(parent=f.env, module=f.module)))
        env.vars.update(bound)
        return env

    def is_generator(self, node):
        cached = getattr(node, '_is_gen', None)
        if cached is None:
            cached = False
            for n in ast.walk(node):
                if isinstance(n, (ast.Yield, ast.YieldFrom)):
                    cached = True
                    break
            node._is_gen = cached
        return cached

    def call_function(self, f, args, kwargs):
        # modular substitution: use the callee's contract instead of its body
        as_callee = False
        if not f.is_spec and isinstance(f.node, ast.FunctionDef):
            q = f.qual()
            spec = self.registry.get(q)
            if spec is not None and self.modular and not (self.depth == 0 and q in self.no_spec_for):
                self.used_specs.add(q)
                f = spec
                as_callee = True
            elif self.depth > 0 or q not in self.no_spec_for:
                self.inlined.add(q)
        if as_callee and not self.is_generator(f.node):
            # the callee's contract stands in for its body: its `require`s become obligations of this call site
            self.spec_depth_call += 1
            try:
                r = yield from self._call_function_body(f, args, kwargs)
            finally:
                self.spec_depth_call -= 1
            return r
        r = yield from self._call_function_body(f, args, kwargs)
        return r

    def _call_function_body(self, f, args, kwargs):
        env = self.bind_args(f, args, kwargs)
        if isinstance(f.node, ast.Lambda):
            r = yield from self.ev(f.node.body, env)
            return r
        if self.is_generator(f.node):
            return SGen(self.run_generator(f, env))
        self.depth += 1
        try:
            yield from self.exec_block(f.node.body, env)
        except _Return as r:
            return r.v
        finally:
            self.depth -= 1
        return None

    def run_generator(self, f, env):
        self.depth += 1
        try:
            yield from self.exec_block(f.node.body, env)
        except _Return:
            return
        finally:
            self.depth -= 1


class SUFun(object):
    """Uninterpreted user callable on opaque objects (argument of PairTable.apply)."""

    def __init__(self, name):
        self.name = name


class SSymRange(object):
    def __init__(self, lo, hi):
        self.lo = lo
        self.hi = hi

    def __repr__(self):
        return 'range(%s, %s)' % (self.lo, self.hi)


class SRecord(object):
    """Plain record (e.g. scipy OptimizeResult)."""

    def __init__(self, kind, **fields):
        self.kind = kind
        self.fields = dict(fields)


class SQty(object):
    """pint Quantity in the quantity algebra (see models.py / DESIGN C17)."""

    def __init__(self, mag, dims, scale, offset=0, is_array=False):
        self.mag = mag        # magnitude term (scalar or SArr)
        self.dims = dims      # tuple of ints (exponents of base dimensions)
        self.scale = scale    # factor to SI-coherent units (term)
        self.offset = offset  # additive offset to SI (kelvin) for offset units


class SReg(object):
    """pint UnitRegistry with user definitions."""

    def __init__(self):
        self.defs = {}
