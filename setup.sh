#!/bin/sh
# Build the overlay interpreter used by every check: python 3.12 (same as /venv, so the repo's
# numpy/scipy/pint are importable) + z3-solver/cvc5/sympy/jsonschema from the offline wheelhouse.
set -e
cd "$(dirname "$0")"
V=.venv
if [ -x "$V/bin/python" ] && "$V/bin/python" -c "import z3, numpy, scipy, pint, sympy, jsonschema" 2>/dev/null; then
  exit 0
fi
exec 9>.venv.lock
flock 9
if [ -x "$V/bin/python" ] && "$V/bin/python" -c "import z3, numpy, scipy, pint, sympy, jsonschema" 2>/dev/null; then
  exit 0
fi
rm -rf "$V"
/venv/bin/python -m venv "$V"
SP=$("$V/bin/python" -c "import site; print(site.getsitepackages()[0])")
echo "import site; site.addsitedir('/venv/lib/python3.12/site-packages')" > "$SP/_venv_overlay.pth"
PIP_NO_INDEX=1 "$V/bin/python" -m pip install -q --no-index --find-links /opt/veriftools/wheels z3-solver cvc5 sympy mpmath jsonschema
"$V/bin/python" -c "import z3, numpy, scipy, pint, sympy, jsonschema; print('overlay venv ok: z3', z3.get_version_string())"
