"""Secondary SMT back end: cvc5 on the SMT-LIB text of a z3 query."""
import os
import subprocess
import tempfile


def cvc5_check(z3_solver, timeout_ms):
    try:
        smt = z3_solver.to_smt2()
    except Exception:
        return 'unknown'
    if 'lambda' in smt or 'declare-datatypes' in smt:
        return 'unknown'
    fd, path = tempfile.mkstemp(suffix='.smt2', prefix='pyvc_')
    try:
        with os.fdopen(fd, 'w') as f:
            f.write('(set-logic ALL)\n' + smt)
        try:
            p = subprocess.run(['/usr/bin/cvc5', '--tlimit=%d' % timeout_ms, path],
                               capture_output=True, text=True, timeout=timeout_ms / 1000.0 + 5)
        except (subprocess.TimeoutExpired, OSError):
            return 'unknown'
        out = p.stdout.strip().splitlines()
        return out[0].strip() if out and out[0].strip() in ('sat', 'unsat') else 'unknown'
    finally:
        try:
            os.unlink(path)
        except OSError:
            pass
